"""Per-property run plans. quick: fixed seed, no native fuzzing; thorough: 16 shards, case-count bounded."""

WORLD_RULE = "rapid-generated history applied to the real tree and to the reference model; "

CHECKS = {
    "C01": {
        "level": "exploration",
        "rule": WORLD_RULE + "20-70 steps over {set,remove,setnil,save,rollback,reopen(cfg re-drawn; latest|older target),prune,refused prune,"
                "lvfo,dvf}; after every step all reads of the working state and of every retained version are compared with the versioned-map model; "
                "non-trivial = >=2 commits, a version with >=2 keys, and at least one of {removal, reopen, prune, rollback}; distinct = sha256 of the JSON history",
        "assumptions": ["reference model in /verif/harness/ref.go (anchored by the repository's TestTreeHash vectors)", "rapid v1.3.0", "Go toolchain"],
        "quick": [{"test": "TestC01", "checks": 700, "shards": 6},
                  {"test": "TestC01", "checks": 60, "shards": 1, "env": {"VERIF_LEVEL": "1"}}],
        "thorough": [{"test": "TestC01", "checks": 40000, "shards": 15},
                     {"test": "TestC01", "checks": 3000, "shards": 1, "env": {"VERIF_LEVEL": "1"}}],
    },
}

"""Per-property run plans. quick: fixed seed, no native fuzzing; thorough: 16 shards, case-count bounded."""

WORLD_RULE = "rapid-generated history applied to the real tree and to the reference model; "

import sys, os
sys.path.insert(0, os.path.dirname(os.path.abspath(__file__)))

_ASSUME = ["reference model in /verif/harness/ref.go (anchored by the repository's TestTreeHash vectors)", "rapid v1.3.0", "Go toolchain"]


def _world(test, rule, q, th, level_q=40, level_t=2000, extra_assume=()):
    return {
        "level": "exploration",
        "rule": rule,
        "assumptions": _ASSUME + list(extra_assume),
        "quick": [{"test": test, "checks": q, "shards": 6},
                  {"test": test, "checks": level_q, "shards": 1, "env": {"VERIF_LEVEL": "1"}}],
        "thorough": [{"test": test, "checks": th, "shards": 15},
                     {"test": test, "checks": level_t, "shards": 1, "env": {"VERIF_LEVEL": "1"}}],
    }


def _rules():
    # the rule texts live next to the generators (harness/specs_test.go: worldSpec.Rule); mirrored here for the evidence file
    import re
    txt = open(os.path.join(os.path.dirname(os.path.abspath(__file__)), "harness", "specs_test.go")).read()
    out = {}
    for m in re.finditer(r'Prop:\s*"(C\d+)".*?Rule:\s*"((?:[^"\\]|\\.)*)"', txt, re.S):
        out[m.group(1)] = m.group(2)
    return out


_R = _rules()

CHECKS = {
    "C01": {
        "level": "exploration",
        "rule": WORLD_RULE + "20-70 steps over {set,remove,setnil,save,rollback,reopen(cfg re-drawn; latest|older target),prune,refused prune,"
                "lvfo,dvf}; after every step all reads of the working state and of every retained version are compared with the versioned-map model; "
                "non-trivial = >=2 commits, a version with >=2 keys, and at least one of {removal, reopen, prune, rollback}; distinct = sha256 of the JSON history",
        "assumptions": ["reference model in /verif/harness/ref.go (anchored by the repository's TestTreeHash vectors)", "rapid v1.3.0", "Go toolchain"],
        "quick": [{"test": "TestC01", "checks": 700, "shards": 6},
                  {"test": "TestC01", "checks": 60, "shards": 1, "env": {"VERIF_LEVEL": "1"}}],
        "thorough": [{"test": "TestC01", "checks": 40000, "shards": 15},
                     {"test": "TestC01", "checks": 3000, "shards": 1, "env": {"VERIF_LEVEL": "1"}}],
    },
    "C02": _world("TestC02", _R["C02"], 700, 40000),
    "C03": _world("TestC03", _R["C03"], 250, 12000, extra_assume=["ics23/go v0.11.0 verifier (IavlSpec)"]),
    "C04": _world("TestC04", _R["C04"], 300, 15000, extra_assume=["ics23/go v0.11.0 verifier (IavlSpec)"]),
    "C07": _world("TestC07", _R["C07"], 600, 40000),
    "C08": _world("TestC08", _R["C08"], 500, 30000),
    "C09": _world("TestC09", _R["C09"], 300, 20000),
    "C12": _world("TestC12", _R["C12"], 700, 40000),
    "C13": _world("TestC13a", _R["C13"], 700, 40000),
    "C14": _world("TestC14", _R["C14"], 500, 30000),
    "C15": _world("TestC15", _R["C15"], 600, 30000),
}

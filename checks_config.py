"""Per-property run plans. quick: fixed seed, no native fuzzing; thorough: 16 shards, case-count bounded."""

WORLD_RULE = "rapid-generated history applied to the real tree and to the reference model; "

import sys, os
sys.path.insert(0, os.path.dirname(os.path.abspath(__file__)))

_ASSUME = ["reference model in /verif/harness/ref.go (anchored by the repository's TestTreeHash vectors)", "rapid v1.3.0", "Go toolchain"]


def _world(test, rule, q, th, level_q=40, level_t=2000, extra_assume=()):
    return {
        "level": "exploration",
        "rule": rule,
        "assumptions": _ASSUME + list(extra_assume),
        "quick": [{"test": test, "checks": q, "shards": 6},
                  {"test": test, "checks": level_q, "shards": 1, "env": {"VERIF_LEVEL": "1"}}],
        "thorough": [{"test": test, "checks": th, "shards": 15},
                     {"test": test, "checks": level_t, "shards": 1, "env": {"VERIF_LEVEL": "1"}}],
    }


def _with_fuzz(cfg, target, fuzztime):
    """thorough tier: additionally a coverage-guided campaign (go native fuzzing driving the same rapid property
    through rapid.MakeFuzz); a wall-clock budget that expires means 'nothing found', never a violation"""
    cfg["thorough"] = cfg["thorough"] + [{"kind": "fuzz", "test": target, "fuzztime": fuzztime}]
    cfg["rule"] += " | thorough adds a coverage-guided campaign (%s, rapid.MakeFuzz over the same property, %s)" % (target, fuzztime)
    return cfg


def _rules():
    # the rule texts live next to the generators (harness/specs_test.go: worldSpec.Rule); mirrored here for the evidence file
    import re
    txt = open(os.path.join(os.path.dirname(os.path.abspath(__file__)), "harness", "specs_test.go")).read()
    out = {}
    for m in re.finditer(r'Prop:\s*"(C\d+)".*?Rule:\s*"((?:[^"\\]|\\.)*)"', txt, re.S):
        out[m.group(1)] = m.group(2)
    return out


_R = _rules()

# TestC13c feeds decoders inputs of at most a few KB: the process is capped at 4 GB of address space and an
# out-of-memory abort of the Go runtime there is the "allocating without bound" the property forbids (the case being
# decoded is saved first and becomes the replay file); everywhere else an out-of-memory abort is INCONCLUSIVE.
_C13C_ENV = {"VERIF_MEM_GB": 4, "VERIF_OOM_IS_VIOLATION": 1}

CHECKS = {
    "C01": {
        "level": "exploration",
        "rule": WORLD_RULE + "20-70 steps over {set,remove,setnil,save,rollback,reopen(cfg re-drawn; latest|older target),prune,refused prune,"
                "lvfo,dvf}; after every step all reads of the working state and of every retained version are compared with the versioned-map model; "
                "non-trivial = >=2 commits, a version with >=2 keys, and at least one of {removal, reopen, prune, rollback}; distinct = sha256 of the JSON history",
        "assumptions": ["reference model in /verif/harness/ref.go (anchored by the repository's TestTreeHash vectors)", "rapid v1.3.0", "Go toolchain"],
        "quick": [{"test": "TestC01", "checks": 1400, "shards": 6},
                  {"test": "TestC01", "checks": 60, "shards": 1, "env": {"VERIF_LEVEL": "1"}}],
        "thorough": [{"test": "TestC01", "checks": 12000, "shards": 15},
                     {"test": "TestC01", "checks": 3000, "shards": 1, "env": {"VERIF_LEVEL": "1"}}],
    },
    "C02": _world("TestC02", _R["C02"], 2400, 80000),
    "C03": _world("TestC03", _R["C03"], 500, 5000, extra_assume=["ics23/go v0.11.0 verifier (IavlSpec)"]),
    "C04": _world("TestC04", _R["C04"], 300, 4000, extra_assume=["ics23/go v0.11.0 verifier (IavlSpec)"]),
    "C07": _world("TestC07", _R["C07"], 1500, 16000),
    "C05": {
        "level": "fault_enumeration",
        "rule": "TestC05: a generated prefix history (8-40 steps + a burst of 0-8 large writes) on the journaling storage seam with flush threshold in {150,300,1000,100000}, then ONE operation O in {SaveVersion, DeleteVersionsTo(n), LoadVersionForOverwriting(n), (re)open with the fast index enabled = first-time / forced index build}; the seam yields the base image B and the journal J of O (one entry per physical batch write) and EVERY cut k in [0,|J|] is enumerated, each recovered twice (fast index on / off): reopening B+J[:k] must succeed, AvailableVersions must be the state before or after O (for DeleteVersionsTo also a shorter deletion, since it deletes version by version), every version of that state is re-read completely (hash, contents through walk and fast paths, iteration, raw f-entries vs label), then O is repeated and must reach the crash-free result, verified through a fresh handle. TestC05Import: import commit (plain/compressed, with a root inherited from an earlier version, with fast-index build) cut at every write, incl. retry of the import. non-trivial = |J| >= 2 (the operation was split over several physical writes); exhaustive within each history, sampled across histories",
        "assumptions": _ASSUME + ["each underlying batch write is atomic and ordered (given by the property); MemDB under the seam is the fault-free substrate", "torn (non-atomic) batch writes and fsync semantics of real disks are out of scope"],
        "coverage_extra": {"exhaustive_within_each_history": True},
        "quick": [{"test": "TestC05", "checks": 120, "shards": 8}, {"test": "TestC05Import", "checks": 150, "shards": 4}],
        "thorough": [{"test": "TestC05", "checks": 6000, "shards": 13}, {"test": "TestC05Import", "checks": 6000, "shards": 3}],
    },
    "C06": {
        "level": "exploration",
        "rule": "a store with 3-6 committed versions, then ONE writer goroutine (script of Set/Remove/SaveVersion [wrapped in SetCommitting/UnsetCommitting with async pruning]/DeleteVersionsTo of versions nobody reads/pin=open Exporter/unpin) and 1-4 reader goroutines (scripts of GetImmutable(v | latest at that moment) - or, in a third of the steps, the handle kept from the reader's previous step - followed by Get, Has, GetWithIndex, full Iterator, GetProof verified against the reference root, full Export compared with the reference post-order), cache 0/2/1000, fast index on/off, sync/async pruning, flush threshold default/150/300/1000 (small values split one commit or deletion over several physical writes). (a) TestC06Plan: a generated PLAN owns the schedule at named points - every storage call seen by the seam and the verif yield points SaveVersion:afterCommit / deleteVersionsTo:before|afterVersion: 'park thread T at the n-th occurrence of event E until thread U has completed m more steps (or has seen event E2 k times)', incl. the gated pattern 'reader starts when the writer has reached E and the writer stays parked there until the reader has done k steps'; a directive that cannot be honoured within 250 ms (e.g. T holds the nodeDB lock U needs) releases and the case is labelled unscheduled, never failed. (b) TestC06Stress: the same scripts on the real scheduler under the Go race detector (GOMAXPROCS 16 and 2) with drawn micro-pauses at storage calls. Oracle: every reader result equals the precomputed model of that version; proofs verify against reference roots; a prune covering a version pinned by an open Exporter errors (sync) / is not carried out (async); after the run every readable version and the writer's working tree are re-read completely; any race report is a violation. non-trivial (a) = >=1 reader step completed while the writer was parked inside a commit or prune; (b) = >=2 readers",
        "assumptions": _ASSUME + ["Go race detector", "schedules are sampled, and controlled only at storage-call / tagged-yield granularity; no claim of schedule coverage"],
        "quick": [{"test": "TestC06Plan", "checks": 300, "shards": 6}, {"test": "TestC06Stress", "checks": 400, "shards": 4, "race": True, "env": {"GORACE": "halt_on_error=0"}},
                  {"test": "TestC06Stress", "checks": 250, "shards": 2, "race": True, "env": {"GORACE": "halt_on_error=0", "VERIF_GOMAXPROCS": "2"}}],
        "thorough": [{"test": "TestC06Plan", "checks": 3000, "shards": 10}, {"test": "TestC06Stress", "checks": 12000, "shards": 4, "race": True, "env": {"GORACE": "halt_on_error=0"}},
                     {"test": "TestC06Stress", "checks": 6000, "shards": 2, "race": True, "env": {"GORACE": "halt_on_error=0", "VERIF_GOMAXPROCS": "2"}}],
    },
    "C08": _world("TestC08", _R["C08"], 2000, 60000),
    "C09": _world("TestC09", _R["C09"], 700, 8000),
    "C10": {
        "level": "exploration",
        "rule": _R["C10"] + " | (b) TestC10Hostile: valid export streams (plain and compressed) of generated trees are mutated (swap, drop, duplicate, height +-, version in {negative, MinInt64, 0, > import version, MaxInt64}, nil/empty key or value, value on any node, nil node, hostile key prefix, truncation, wrong import version) or replaced by random ExportNode sequences, fed to Importer / CompressImporter and ended by Commit or Close: no panic, no hang (60 s watchdog = inconclusive), error or commit; unless Commit succeeded a fresh tree on that store must Load() as (0,nil) with no version visible; non-trivial = mutated stream in which >=1 inner node was accepted (stack-rebuild branch). TestC10Big: >10000-node streams (5001-5400 leaves) committed (reference hash, all keys) / closed / failing after the first 10000-node batch was flushed.",
        "assumptions": _ASSUME + ["ics23/go v0.11.0 verifier (IavlSpec)"],
        "quick": [{"test": "TestC10", "checks": 300, "shards": 5}, {"test": "TestC10Hostile", "checks": 4000, "shards": 4},
                  {"test": "TestC10Big", "checks": 3, "shards": 2}],
        "thorough": [{"test": "TestC10", "checks": 6000, "shards": 8}, {"test": "TestC10Hostile", "checks": 250000, "shards": 6},
                     {"test": "TestC10Big", "checks": 60, "shards": 2},
                     {"kind": "fuzz", "test": "FuzzImporter", "fuzztime": "180s"}],
    },
    "C11": {
        "level": "exploration",
        "rule": "insertion-order profiles (ascending, descending, alternating ends, random with removals, remove-a-contiguous-run to empty subtrees) with interleaved commits, trees up to 300 keys (quick) / 3000 keys (thorough); for the working tree and every version: Height()/Size() equal the reference tree's and satisfy h <= 1.4405*log2(n+2); GetByIndex(i) = i-th sorted pair and GetWithIndex(k) = rank for ALL keys and ranks, insertion rank for absent neighbours, nil for out-of-range ranks (n, n+5, -1); Has and Get of every key agree with the rank lookups, and keys of the last committed version removed in the working tree are absent for GetWithIndex, Has and Get alike; fast index on in a third of the cases; with cache size 0 on a counting storage wrapper, on fresh tree objects: <= 2h+2 storage reads for Get (walk) / Has / GetWithIndex / GetByIndex / Get(absent), <= 10h+10 for GetProof. non-trivial = size >= 8 and >= 1 double rotation in the reference; distinct = sha256 of the op list",
        "assumptions": _ASSUME + ["storage reads are counted at the KVStore interface (Get/Has calls) with the node cache disabled"],
        "quick": [{"test": "TestC11", "checks": 300, "shards": 8}],
        "thorough": [{"test": "TestC11", "checks": 1200, "shards": 16, "env": {"VERIF_TIER": "thorough"}}],
    },
    "C16": {
        "level": "exploration",
        "needs_legacygen": True,
        "rule": "a generated legacy history (1-7 versions of set/remove/save with legacy-side DeleteVersion of non-latest versions, so that orphan records and holes in the version range exist; legacy fast index on/off) is executed by the LEGACY library (iavl v0.20.0 + cometbft-db v0.7.0, co-process /verif/legacygen) which returns the raw database and the hashes / available versions it reported; the reference model must agree with that report (this anchors the model against a third implementation). The dump is loaded into a MemDB and opened with the current library: every legacy version the legacy library reports must be available with the model's contents and the legacy-reported hash, on all read paths; then 4-24 generated steps of new-format history (writes, commits with and without writes on a legacy root, DeleteVersionsTo below / at / above the boundary, LoadVersionForOverwriting and DeleteVersionsFrom to legacy versions, reopenings with re-drawn configuration) are checked against the model after every step and through a fresh handle. DeleteVersionsTo below the boundary is a no-op by design ('legacy versions are deleted at once'). TestC16Testdata: the two checked-in 0.13 databases load, every version iterates completely, a commit and a prune across the boundary keep the contents. non-trivial = the legacy side has >=1 deletion and the continuation crosses the boundary with a prune at/above it or a rollback into the legacy range",
        "assumptions": _ASSUME + ["iavl v0.20.0 + cometbft-db v0.7.0 (module cache) as the legacy oracle", "commits into a hole of the legacy version range are not generated"],
        "quick": [{"test": "TestC16", "checks": 600, "shards": 6}, {"test": "TestC16Testdata", "checks": 1, "shards": 1, "count_cases": False}],
        "thorough": [{"test": "TestC16", "checks": 8000, "shards": 16}, {"test": "TestC16Testdata", "checks": 1, "shards": 1, "count_cases": False}],
    },
    "C17": {
        "level": "fault_enumeration",
        "rule": "a generated prefix history (6-28 steps), then ONE public call with an error result: reads on a committed version {Get, Has, GetWithIndex, GetByIndex, Iterate, Iterator loop+Error+Close, GetProof (membership and non-membership), GetMembershipProof, GetVersionedProof, GetVersioned, GetImmutable+Hash, Export loop, LoadVersion, TraverseStateChanges, VersionExists/AvailableVersions/GetLatestVersion}, reads on the working tree {Get, Iterate, Iterator}, writes {Set+SaveVersion, Remove+SaveVersion, SaveVersion without changes, DeleteVersionsTo, DeleteVersionsFrom, LoadVersionForOverwriting, SaveChangeSet (set / delete), Import+Commit}, on a cold handle (cache 0/2/1000, fast index on/off, SyncOption on in a quarter of the cases, the handle on a PrefixDB namespace of the store in a quarter - faults are injected below the PrefixDB; in a third of the eligible cases the call is the FIRST call on a brand-new handle, which discovers the version range under the faults). A fault-free run on a cloned image records the result R and the number n of storage calls; then EVERY position k in [1,n] is faulted once (Get, Has, Iterator/ReverseIterator creation, iterator step, batch Set/Delete/Write) on a fresh clone, plus 0-3 drawn multi-fault sets; TestC17BigImport fails each physical batch write of a >10000-node import (background flushes and the final write) in turn, under a watchdog (an import that never returns does not surface the fault either). Oracle: an error, or exactly R (fault on an irrelevant path); never another value, an absence, a shorter iteration/export, a panic or a process abort; a write call must not report success when a storage write failed; the store left behind by a failed single-batch write reopens with every listed version readable and unchanged; after a FAILED DeleteVersionsTo(n) the same handle commits once more (storage healthy again) and every version above n must still be intact through a fresh handle; a load that reported success under a fault must leave a handle that reports the right version range. non-trivial = n >= 2 and at least one position turned the result into an error; exhaustive over positions within each case",
        "assumptions": _ASSUME + ["calls without an error result (IterateRange, IterateRangeInclusive) are outside the property", "write calls use flush threshold 100000 (one physical write); a sixth of them 150/300 where only the error-vs-success oracle applies (F7 family)"],
        "coverage_extra": {"exhaustive_within_each_history": True},
        "quick": [{"test": "TestC17", "checks": 2400, "shards": 8}, {"test": "TestC17BigImport", "checks": 2, "shards": 2}],
        "thorough": [{"test": "TestC17", "checks": 60000, "shards": 14}, {"test": "TestC17BigImport", "checks": 40, "shards": 2}],
    },
    "C18": {
        "level": "exploration",
        "rule": "programs of 1-30 steps over {Set, Delete (incl. empty key / nil value probes), Get+Has, batch (Set/Delete..., Write|WriteSync|Close, then reuse attempts), forward/reverse iterators with bounds nil / stored key / extension / prefix / random, fully or partially consumed and closed inside the step} with keys over the alphabet {00,01,'a',FE,FF} (length 0-4), executed on MemDB, PrefixDB(MemDB), PrefixDB(PrefixDB(MemDB)) (and GoLevelDB, PrefixDB(GoLevelDB) in the LevelDB slice) with prefixes incl. FF, FF FF, 'a' FF, FE FF FF; every parent store is pre-seeded with keys outside the namespace (the prefix itself, prefix minus last byte, incremented prefix and its extensions, just-below keys, FF runs). Oracle: one sorted-map model; identical observable results on all backends; after every step each view dumps exactly the model and the outside keys of each parent are unchanged. non-trivial = an iterator bound equal to a stored key, or a range that splits the key set | thorough adds a coverage-guided campaign (FuzzC18Programs: go native fuzzing drives the same generator and oracle through rapid.MakeFuzz, 90 s)",
        "assumptions": ["rapid v1.3.0", "Go toolchain", "writes under an open iterator are excluded (MemDB iterators hold the RWMutex; caller error)", "empty prefix excluded (cpIncr documents len>0)"],
        "quick": [{"test": "TestC18", "checks": 1500, "shards": 6}, {"test": "TestC18", "checks": 150, "shards": 2, "env": {"VERIF_LEVEL": "1"}}],
        "thorough": [{"test": "TestC18", "checks": 60000, "shards": 12}, {"test": "TestC18", "checks": 5000, "shards": 4, "env": {"VERIF_LEVEL": "1"}},
                     {"kind": "fuzz", "test": "FuzzC18Programs", "fuzztime": "90s"}],
    },
    "C12": _world("TestC12", _R["C12"], 2000, 25000),
    "C13": {
        "level": "exploration",
        "rule": _R["C13"] + " | (b) TestC13b: a reference history of 1-6 versions is written by the independent encoder (two own nonce numberings, reference roots in the 13-byte and the old 9-byte form, empty roots, optionally fast index + label); the library must Load it, report the same versions/contents/hashes/proofs, pass the raw audit and continue 3-20 generated steps (commits, prunes, rollbacks, reopens) with reference hashes; non-trivial = >=1 inner node and >=1 reference or empty root encoded. | (c) TestC13c: valid encodings for MakeNode, MakeLegacyNode, fastnode.DeserializeNode, DecodeBytes/Uvarint/Varint (verif re-export) and the reference-root reader are mutated (byte flips, truncation, splices of hostile varints: max, overflow, 2^62 length) or replaced by random bytes: error-or-value, no panic, < 64 MB allocated per call, successful decodes agree field by field with the independent decoder / encoding/binary; non-trivial = input differs from the valid encoding and is longer than 2 bytes. thorough adds native go fuzz campaigns per decoder.",
        "assumptions": _ASSUME + ["pinned on-disk layout as restated in harness/codec.go"],
        "replay_mem_gb": 4, "replay_oom_is_violation": True,
        "quick": [{"test": "TestC13a", "checks": 500, "shards": 4}, {"test": "TestC13b", "checks": 400, "shards": 4},
                  {"test": "TestC13c", "checks": 6000, "shards": 4, "env": _C13C_ENV}],
        "thorough": [{"test": "TestC13a", "checks": 30000, "shards": 6}, {"test": "TestC13b", "checks": 20000, "shards": 6},
                     {"test": "TestC13c", "checks": 250000, "shards": 4, "env": _C13C_ENV},
                     {"kind": "fuzz", "test": "FuzzMakeNode", "fuzztime": "120s"}, {"kind": "fuzz", "test": "FuzzMakeLegacyNode", "fuzztime": "90s"},
                     {"kind": "fuzz", "test": "FuzzDeserializeNode", "fuzztime": "60s"}, {"kind": "fuzz", "test": "FuzzDecodeBytes", "fuzztime": "45s"},
                     {"kind": "fuzz", "test": "FuzzDecodeVarint", "fuzztime": "30s"}, {"kind": "fuzz", "test": "FuzzDecodeUvarint", "fuzztime": "30s"},
                     {"kind": "fuzz", "test": "FuzzRootReader", "fuzztime": "120s"}],
    },
    "C14": _world("TestC14", _R["C14"], 2000, 16000),
    "C15": _world("TestC15", _R["C15"], 2400, 60000),
    "C19": {
        "level": "exploration",
        "module": "harness_v2",
        "rule": "normal-form histories (per version at most one Set or Remove per key; key-sorted in two thirds of the cases, arbitrary order otherwise; empty versions, shrink-to-empty, rewrites of identical values, removals of absent keys, bursts of 8-25 writes) of 1-10 versions x TreeOptions {CheckpointInterval 1,2,3,5,7,1000; CheckpointMemory off/1/300/3000 B (extra checkpoints where the interval would not place one); HeightFilter 0,1; EvictionDepth -1,0,1,2,8} x SqliteDbOptions {ShardTrees on/off}, leaf values stored, sqlite files on tmpfs; keys incl. 127/128/129/300-byte ones, values incl. 127/128/200/5000 B; in a third of the cases 1-2 commits are preceded by SetShouldCheckpoint() (a checkpoint where the interval would not place one). Three-way oracle at every commit: v2 SaveVersion hash == v1 MutableTree (MemDB) hash == reference; before and after each commit Get / Has (present and absent keys) / Size / Height and forward, inclusive and reverse iterators with bounds drawn from {nil, stored keys, extensions, prefixes, random} == versioned-map model (the iterator queries of a version run on the uncommitted working state as well as on the committed one); the range queries of a version run BEFORE its lookups (which would pull every evicted node back into memory); a third of the cases are QUIET: no reads between the commits (hashes only), contents and queries once after the last commit - a full read after every commit pulls every node back into memory and hides lazy loads of evicted nodes. non-trivial = >=1 checkpoint and >=1 non-checkpoint commit, >=1 removal and >=1 rotation in the reference",
        "assumptions": _ASSUME + ["the return values of v2 Set/Remove are not asserted (the property does not state them)", "iterator bounds are nil or non-empty"],
        "quick": [{"test": "TestC19", "checks": 400, "shards": 8, "module": "harness_v2"}],
        "thorough": [{"test": "TestC19", "checks": 4000, "shards": 16, "module": "harness_v2"}],
    },
    "C20": {
        "level": "exploration",
        "module": "harness_v2",
        "rule": "C19 histories of 1-24 versions (CheckpointMemory only in cases without pruning), then Close; for EVERY retained target t the database is reopened and LoadVersion(t) must give the reference hash, Version()==t, size/height, Has/Get of every key and full forward + reverse iteration == model (targets on, just after and far after a checkpoint); at the latest version the history is continued for 0-3 versions and must return the reference hashes of the uninterrupted run; in a third of the cases DeleteVersionsTo(n) is issued mid-history (background pruning gets time, then Close + reopen): the latest version and every version at or above the last checkpoint not after n must load; in a quarter of the cases Tree.SaveSnapshot + LoadSnapshot (pre-order table) and an ingestion of the version's node stream (pre- or post-order, generated from the reference tree) through WriteSnapshot into a fresh database + LoadSnapshot must give the version's hash and contents; for every reloaded non-empty version the node stream of Tree.Export in pre- AND post-order must equal the reference traversal (key, leaf value, node version, height), and in a third of the cases the real Export stream of one drawn reloaded version is piped into WriteSnapshot of a fresh database and loaded back (hash, contents, size); forced checkpoints (SetShouldCheckpoint) as in C19; in a third of the cases without pruning / snapshot a COPY of the closed database is rolled back to a drawn version with the library's rollback primitive (bare SqliteDb.Revert + Close, as cmd/rollback does), that version is loaded and the history continues with 1-4 OTHER versions: hashes and contents must be those of a history that ended there (model forked at the target), and every version of the new history must reload after close + reopen. non-trivial = a target that is not a checkpoint (replay path) whose log since the checkpoint contains a removal",
        "assumptions": _ASSUME + ["sqlite durability / fsync is not modelled", "SaveSnapshot of an empty tree returns an error and is not generated"],
        "quick": [{"test": "TestC20", "checks": 160, "shards": 8, "module": "harness_v2"}],
        "thorough": [{"test": "TestC20", "checks": 2500, "shards": 16, "module": "harness_v2"}],
    },
}

# C09 at scale: one rollback (both ways, same / new handle) that erases, or one DeleteVersionsTo that orphans, 70 000 -
# 110 000 node entries in a single call (above every internal batching limit), then a fresh handle, a raw scan for left-over
# node entries, the persisted index, and a further commit with the reference hash
CHECKS["C09"]["quick"] = CHECKS["C09"]["quick"] + [{"test": "TestC09Big", "checks": 2, "shards": 2}]
CHECKS["C09"]["thorough"] = CHECKS["C09"]["thorough"] + [{"test": "TestC09Big", "checks": 12, "shards": 4}]
CHECKS["C09"]["rule"] += " | TestC09Big: 11 500-14 000 keys, every key rewritten in each of 3-4 further versions, then ONE rollback to version 1 (LoadVersionForOverwriting / DeleteVersionsFrom + load on the same or a new handle) or ONE DeleteVersionsTo(latest-1): 70 000-110 000 node entries erased or orphaned in a single call; a fresh handle must list exactly the surviving version with the reference hash and contents, the raw store must hold no node entry of an erased / deleted version, the persisted index exactly the surviving pairs, and the next commit must return the reference hash"

# C05 enumerates every cut of every history three times: about 4 minutes on an idle 16-core machine, up to 15 on a busy one
CHECKS["C05"]["quick_timeout"] = 2400

#!/usr/bin/env python3
"""Collects confirmed seeded changes from /tmp/seedout + /tmp/sc/results into /verif/seeded/<id>/<m>/."""
import json, glob, os, shutil, sys
for res in sorted(glob.glob('/tmp/sc/results/*.json'), key=os.path.getmtime):
    try:
        d = json.load(open(res))
    except Exception:
        continue
    seed = d.get('seed')
    if not seed or d.get('demo_unchanged') != 'pass' or not str(d.get('demo_changed', '')).startswith('fail'):
        continue
    parts = seed.strip('/').split('/')
    pid, m = parts[-2], parts[-1]
    if os.path.isdir(seed + 'b') or os.path.isdir(os.path.join('/verif/seeded', pid, m + 'b')) or seed.startswith('/verif/seeded'):
        continue  # superseded by a hand-rebased patch (<m>b) / a seed that already lives under seeded/
    dst = os.path.join('/verif/seeded', pid, m)
    os.makedirs(dst, exist_ok=True)
    for f in glob.glob(seed + '/*'):
        if os.path.basename(f) in ('suite.log', 'suite_summary.txt'):
            continue
        if os.path.isfile(f) and not (os.path.basename(f) == 'meta.json' and os.path.exists(os.path.join(dst, 'meta.json'))):
            shutil.copy(f, dst)
    meta = json.load(open(os.path.join(dst, 'meta.json')))
    conf = meta.get('confirmed', {})
    conf['demo_on_unchanged_tree'] = 'passes'
    conf['demo_with_patch'] = 'fails'
    conf['how'] = 'seedcheck.py: scratch worktree of /repo HEAD, go test -run TestVerifDemo before/after git apply patch.diff; then verif.py check <prop> quick with VERIF_REPO=<scratch worktree>'
    checks = conf.get('checks', {})
    for k, v in d.items():
        if k.startswith('check_'):
            prev = checks.get(k[6:])
            checks[k[6:]] = {'exit': v['exit'], 'wall_s': v['wall'], 'detected': v['exit'] == 1, 'first_lines': v['lines'][:2]}
            if prev and (not prev.get('detected') or prev.get('missed_first')) and v['exit'] == 1:
                checks[k[6:]]['missed_first'] = True  # an earlier version of the check did not catch it
    conf['checks'] = checks
    meta['confirmed'] = conf
    meta['breaks_property'] = meta.get('property', pid)
    json.dump(meta, open(os.path.join(dst, 'meta.json'), 'w'), indent=1)
    print(pid, m, {k: v['detected'] for k, v in checks.items()})

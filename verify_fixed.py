#!/usr/bin/env python3
"""For every 'fixed' entry of known_findings.json: the replay passes on /repo HEAD and fails again when the
fix commit is reverted in a scratch worktree (so the replay really guards the repaired defect)."""
import json, os, subprocess, sys, shutil
env = dict(os.environ, GOFLAGS='-mod=mod', GOPROXY='off', GOSUMDB='off', GOTOOLCHAIN='local')
k = json.load(open('/verif/known_findings.json'))
only = set(sys.argv[1:])
out = {}
for f in k['findings']:
    if f['status'] != 'fixed' or (only and f['id'] not in only):
        continue
    wt = '/tmp/sc/revert_' + f['id']
    subprocess.run(['git', '-C', '/repo', 'worktree', 'remove', '--force', wt], capture_output=True)
    subprocess.run(['git', '-C', '/repo', 'worktree', 'add', '--detach', wt, 'HEAD'], capture_output=True, check=True)
    r = subprocess.run(['git', 'revert', '--no-commit', f['commit']], cwd=wt, capture_output=True, text=True)
    res = {'revert': 'ok' if r.returncode == 0 else 'CONFLICT'}
    if r.returncode == 0:
        for rp in (f['replay'] if isinstance(f['replay'], list) else [f['replay']]):
            scratch = '/tmp/sc/work_revert_' + f['id']
            shutil.rmtree(scratch, ignore_errors=True); os.makedirs(scratch)
            p1 = subprocess.run(['python3', '/verif/verif.py', 'replay', f['property'], '/verif/' + rp], env=dict(env, VERIF_REPO=wt, VERIF_SCRATCH=scratch), capture_output=True, text=True)
            p2 = subprocess.run(['python3', '/verif/verif.py', 'replay', f['property'], '/verif/' + rp], env=dict(env, VERIF_SCRATCH=scratch), capture_output=True, text=True)
            res[rp] = {'with_fix_reverted_exit': p1.returncode, 'on_head_exit': p2.returncode, 'ok': p1.returncode == 1 and p2.returncode == 0,
                       'detail': (p1.stdout.strip().splitlines() or [''])[-1][:200]}
            shutil.rmtree(scratch, ignore_errors=True)
    subprocess.run(['git', '-C', '/repo', 'worktree', 'remove', '--force', wt], capture_output=True)
    out[f['id']] = res
    print(f['id'], json.dumps(res)[:600], flush=True)
json.dump(out, open('/tmp/sc/verify_fixed.json', 'w'), indent=1)

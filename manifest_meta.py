"""Human-written part of MANIFEST.json per property."""

HOOK_COMMITS = []

NOT_APPLICABLE_REASONS = {}

_TB = "Trusted: Go toolchain, rapid v1.3.0, sha256, the reference model in /verif/harness/ref.go (anchored by the repository's TestTreeHash golden vectors, by iavl v0.20.0 in C16 and by v2 in C19). Bounded search: absence of a violation is shown only for the generated cases (counts in the evidence file). "

META = {
    "C01": {
        "technique": "model-based stateful property testing (rapid) against a versioned-map reference model",
        "level_text": "Exploration: rapid-generated histories (small structured key universe, re-drawn configuration at every reopen, MemDB/seam/PrefixDB/GoLevelDB) are applied to the real tree and to a versioned-map model; after every step every read of the working state and of every retained version is compared. Thousands of distinct non-trivial histories per quick run, ~600k per thorough run; failures shrink to a JSON history that replays without rapid.",
        "level_note": _TB + "Regions steered around while a known finding is open are counted in the evidence (excluded_by_<id>).",
    },
}

"""Human-written part of MANIFEST.json per property."""

HOOK_COMMITS = ["1d195fa"]

NOT_APPLICABLE_REASONS = {}

_TB = "Trusted: Go toolchain, rapid v1.3.0, sha256, the reference model in /verif/harness/ref.go (anchored by the repository's TestTreeHash golden vectors, by iavl v0.20.0 in C16 and by v2 in C19). Bounded search: absence of a violation is shown only for the generated cases (counts in the evidence file). "

META = {
    "C01": {
        "technique": "model-based stateful property testing (rapid) against a versioned-map reference model",
        "level_text": "Exploration: rapid-generated histories (small structured key universe, re-drawn configuration at every reopen, MemDB/seam/PrefixDB/GoLevelDB) are applied to the real tree and to a versioned-map model; after every step every read of the working state and of every retained version is compared. Thousands of distinct non-trivial histories per quick run, ~600k per thorough run; failures shrink to a JSON history that replays without rapid.",
        "level_note": _TB + "Regions steered around while a known finding is open are counted in the evidence (excluded_by_<id>).",
    },
    "C02": {
        "technique": "model-based stateful property testing: differential against an independent reference IAVL+ implementation, metamorphic read interleaving",
        "level_text": "Exploration: every hash the library reports (WorkingHash at drawn points, SaveVersion hash+version, Hash, hash of every retained version after every step, after reopen, prune, rollback-and-redo, export/import hop) is compared with an independent purely-functional implementation of the documented IAVL+ rules. Read-only calls are applied to the real tree only, so any influence of a read on a later hash shows at the next commit. The per-step observer deliberately does not call WorkingHash (it would memoise hashes and mask a poisoning read).",
        "level_note": _TB + "No open finding restricts this check (F1 - hash poisoned by a proof query while InitialVersion is pending - was repaired; its input is replayed by the replay tier).",
    },
    "C03": {
        "technique": "property-based testing: two-sided oracle (completeness + binding) with the ics23 verifier against reference roots",
        "level_text": "Exploration: for every retained non-empty version and the working tree and every probe key (present; absent below/above/between/prefix/extension) the proof of the right kind must exist, carry the model's value / the model's neighbours and verify with ics23.IavlSpec against the REFERENCE root; it must fail for another value, another key, the opposite claim and the reference root of any other retained version where the claim is false; wrong-kind requests must error.",
        "level_note": _TB + "Also trusted: ics23/go v0.11.0 verifier. Keys whose stored value is empty cannot be verified by ics23 by construction (LeafOp.Apply rejects empty values) and are counted, not checked. The tree's own VerifyMembership / VerifyNonMembership / VerifyProof helpers are checked on committed versions only.",
    },
    "C04": {
        "technique": "model-based stateful property testing with a pruning-biased generator; re-check through a fresh handle",
        "level_text": "Exploration: histories biased to commits without writes, empty and one-leaf versions, rollbacks, cold caches and flush thresholds that split one deletion over several physical batches. After every DeleteVersionsTo every later version is re-checked completely (contents, hash, proofs against reference roots) through the live handle and through a fresh handle; deleted versions must be unavailable; refused requests (latest, open exporter) must error and leave the store byte-identical.",
        "level_note": _TB + "DeleteVersionsTo(n) is generated only with n below the version the live handle is based on (documented precondition: a version in use is not deleted).",
    },
    "C07": {
        "technique": "differential property testing of two read paths (fast index vs tree walk) plus independent raw-index audit",
        "level_text": "Exploration: every (re)open re-draws fast index on/off and the version to load; after every step Get/GetWithIndex, Iterator/IterateRange, GetVersioned/GetImmutable.GetWithIndex are compared with each other and with the model, and whenever the live handle has the index enabled the raw f-entries (decoded by an independent decoder) must equal the model's latest map exactly with label 1.1.0-<latest>.",
        "level_note": _TB + "No open finding restricts this check (F2, F3 repaired; replayed by the replay tier). Also checked: a handle used without Load, and the stamps of the persisted index entries against the version that wrote the value.",
    },
    "C12": {
        "technique": "model-based stateful property testing with a raw-storage reachability audit by an independent decoder",
        "level_text": "Exploration: after every step of crash-free histories the raw node entries are compared with the set reachable from the root markers of the model's retained versions (nothing missing, nothing unreachable, no root key of a deleted version), the fast index with the latest map; each case ends by removing every key and pruning: only the empty root marker may remain.",
        "level_note": _TB + "The decoder in /verif/harness/codec.go is written from the documented layout, not from node.go.",
    },
    "C13": {
        "technique": "property-based testing: independent decoder/encoder round trips of the on-disk format; coverage-guided fuzzing of decoders",
        "level_text": "Exploration: (a) after every step the independent decoder must reproduce exactly the reference tree from the raw store (all fields, child links, root markers, numeric key order); (b) databases written by an independent encoder with its own nonce numbering must be opened, read, extended and pruned by the library with reference hashes; (c) decoders are fed mutated valid encodings and fuzzed byte strings: error-or-value, never panic, bounded allocation.",
        "level_note": _TB + "Format knowledge is the pinned layout documented in docs/ and restated in codec.go.",
    },
    "C14": {
        "technique": "model-based stateful property testing of the version range API, incl. fresh-handle rediscovery",
        "level_text": "Exploration: after every step every version number in {0,1} U [first-ever-1, latest+1] is queried through VersionExists, GetImmutable, GetVersioned and LoadVersion on a throw-away handle, plus AvailableVersions/GetLatestVersion, on the live handle and (after prune/rollback) on a fresh handle; re-commit of an existing number must be idempotent iff the hashes agree, else fail with a byte-identical store.",
        "level_note": _TB + "Open finding F17 (explicit InitialVersionOption(0): version 0 is committed but never visible) is excluded from generation and shown by the replay tier.",
    },
    "C08": {
        "technique": "property-based testing of three iterator implementations against a sorted-map oracle over generated states x bounds x direction x stop point",
        "level_text": "Exploration: tree states are reached by generated histories (committed+index, historical, index disabled, working tree with uncommitted additions/updates/removals, empty); for each drawn (start,end,direction,stop) every interface - the tree's own Iterator driven through the full Valid/Key/Value/Next/Error/Close protocol, the tree-walk iterator, IterateRange, IterateRangeInclusive, Iterate - must yield exactly sorted(model) in [start,end) (<= end inclusive) once, in order, then remain invalid; a stopping callback must stop at that element.",
        "level_note": _TB + "Next() is never called on an invalid iterator (caller error in the corestore contract); Domain() is not asserted (the property is silent).",
    },
    "C09": {
        "technique": "differential stateful property testing against a never-diverged twin tree (plus reference model), raw-store comparison",
        "level_text": "Exploration: after a rollback to v (LoadVersionForOverwriting or DeleteVersionsFrom + reload, repeated/nested/after pruning) a twin tree on a fresh store is rebuilt from the surviving history only; every further op goes to both and after each step reads, hashes, AvailableVersions and the raw stores (node entries byte-identical up to the (v,0)/(v,1) spelling of a reference to a re-keyed root, fast entries keys+values, label) are compared, so nothing of the erased versions can leak through caches, counters or the index.",
        "level_note": _TB + "No open finding restricts this check (F3, F4 repaired; replayed by the replay tier).",
    },
    "C15": {
        "technique": "model-based property testing: change sets predicted from the op log, metamorphic replay through SaveChangeSet",
        "level_text": "Exploration: the expected change set of every version is computed from the op log and the versioned-map model and compared with TraverseStateChanges for drawn ranges; all sets are replayed into an empty tree (contents always, reference hashes when the original history was in normal form - a third of the cases); removal of a missing key must be rejected without creating a version.",
        "level_note": _TB + "Only versions whose predecessor is retained (or the first version ever, predecessor = empty tree) are constrained, as the property states; the inclusive/exclusive end of the range is accepted either way (doc comment and code disagree).",
    },
    "C10": {
        "technique": "model-based round-trip property testing (export/import hops inside generated histories) + structure-aware hostile stream generation for the importers",
        "level_text": "Exploration: (a) generated histories hop through Exporter->Importer (plain and compressed) at any retained version; the exported stream is compared node by node with the reference post-order, the imported store with the reference (hash, contents, proofs, raw reachability, only the imported version visible) and every later commit with the reference hash. (b) hostile / random ExportNode streams: no panic, no hang, error-or-commit, nothing visible unless Commit succeeded; streams larger than one 10000-node import batch committed / closed / failing late.",
        "level_note": _TB + "Open finding F18 (an aborted import that already flushed a batch leaves node entries that fake a version) is steered around in the search tier and shown by the replay tier. The importer allocates a nonce table of size version+1, so hops are generated only below version 2^20.",
    },
    "C11": {
        "technique": "property-based testing with insertion-order profiles; exhaustive rank/key inverse per tree; storage-read counting through the seam",
        "level_text": "Exploration: for every version of generated trees (up to 3000 keys in the thorough tier) height and size equal the reference tree's and meet the AVL bound, rank and key lookups are inverse for all keys and ranks, and storage reads with nothing cached stay within 2h+2 (10h+10 for proofs).",
        "level_note": _TB + "Reads are counted as Get/Has calls on the storage wrapper with cache size 0 and a fresh ImmutableTree per measurement (child pointers are cached in node objects otherwise).",
    },
    "C18": {
        "technique": "differential model-based property testing of the storage backends against a sorted-map model",
        "level_text": "Exploration: generated programs of point ops, batches and bounded forward/reverse iterators over a byte alphabet containing 0x00 and 0xFF run on every backend and on a sorted-map model; all backends must agree with the model after every step, batches must be atomic, ordered and unusable after Write/Close, empty keys and nil values must be rejected, and a prefixed view (also nested, also with 0xFF-terminated prefixes) must never show or modify the pre-seeded keys outside its namespace.",
        "level_note": "Trusted: Go toolchain, rapid, goleveldb as shipped. Programs never write while an iterator is open and never call Key/Value/Next on an invalid iterator (caller errors of the contract). GoLevelDB durability/fsync is not modelled.",
    },
    "C05": {
        "technique": "fault enumeration inside generated histories: every crash cut of the journal of one generated operation, recovered and compared with the model",
        "level_text": "Fault enumeration: for each generated history the storage seam records the physical writes of one operation (commit, deletion of old versions, rollback, import commit, fast-index build) and EVERY boundary between them is turned into a crash image that is reopened three ways (index on, index off, and - index on - at an OLDER version first), compared with the model's before/after state on all read paths, and on which the operation is repeated. Exhaustive per history, sampled across histories (thousands of cuts per quick run).",
        "level_note": _TB + "Assumes atomic ordered batch writes (as the property states). Open finding F7: at cuts strictly inside a SaveVersion / LoadVersionForOverwriting / DeleteVersionsTo that the flush threshold produced (not at the operation's own write boundaries, which are found by running it once more with the default threshold) the known symptoms are tolerated and counted, but every version the operation was not touching must still be fully readable; cuts 0 and |J|, import and index-build cuts are checked in full. F18 (multi-batch import) likewise.",
    },
    "C17": {
        "technique": "fault enumeration inside generated histories: every storage-call position of one generated public call is failed once; differential against the fault-free result",
        "level_text": "Fault enumeration: for each generated history and public call, a fault-free run fixes the result and the number of storage calls; every single position is then failed (plus drawn multi-fault sets) on a fresh clone with a cold handle. The call must return an error or exactly the fault-free result, never panic or abort the process; writes must not report success after a failed storage write and must leave a loadable store.",
        "level_note": _TB + "Exhaustive per call, sampled across histories and calls. Calls without an error result are out of scope (as the property states).",
    },
    "C06": {
        "technique": "generated concurrent scripts with a harness-owned schedule at named points (storage seam + verif yield points) and race-detector stress with a checking oracle",
        "level_text": "Exploration of schedules: property-based testing cannot enumerate interleavings of the Go runtime; it owns the schedule at every storage call and at tagged points inside the commit / prune protocol (a generated plan parks and releases threads there, which e.g. places a reader deterministically between ndb.Commit and the publication of the new latest version), and it runs the same generated scripts on the real scheduler under the race detector. Every reader result is compared with the precomputed model of its version, pinned versions must survive prune requests, and the store is re-read completely after each run.",
        "level_note": _TB + "No claim of schedule coverage: in-memory races between two controlled points are visible only to the race detector on the schedules that happen. Open finding F12 (reader of the latest version inside the commit window sees the next version through the fast index; transient) is recognised by its signature and counted. Plans are reproducible only at the granularity of the controlled points; stress failures are reported with scripts and race report but cannot be shrunk.",
    },
    "C16": {
        "technique": "differential property testing against the legacy library as oracle (co-process), then model-based stateful testing across the format boundary",
        "level_text": "Exploration: legacy databases with known contents are produced by the legacy library itself from generated histories (incl. legacy-side deletions, so orphan records and version holes exist); the current library must serve every legacy version with the legacy-reported hash and the model's contents, and a generated continuation (commits on a legacy root, pruning below/at/above the boundary, rollback into the legacy range, reopenings) is checked against the model after every step and through a fresh handle.",
        "level_note": _TB + "Trusted additionally: iavl v0.20.0 + cometbft-db v0.7.0 as legacy oracle. Open finding F29 (two different legacy nodes of one version re-formatted at the same key) is steered around and counted.",
    },
    "C19": {
        "engine": "harness_v2",
        "technique": "three-way differential property testing (v2 vs v1 vs independent reference) over generated histories and option grids",
        "level_text": "Exploration: the same generated normal-form history is applied to the SQLite-backed v2 tree, to v1 on MemDB and to the reference; every commit hash must agree three ways, and v2's lookups, existence tests, size, height and forward / inclusive / reverse iterators must agree with the versioned-map model before and after each commit (iterators also on the uncommitted working state), across checkpoint interval, forced checkpoints, checkpoint memory, height filter, eviction depth and sharding, with length-boundary keys and values.",
        "level_note": _TB + "v2's writer goroutines exit the process on an internal error; the harness' logger prints the VIOLATION line with the current case first.",
    },
    "C20": {
        "engine": "harness_v2",
        "technique": "round-trip property testing of persistence: close / reopen / LoadVersion of every retained target, continuation, pruning, snapshots, against the reference",
        "level_text": "Exploration: after closing, every retained version is reloaded (checkpoint read + change-log replay) and compared with the reference hash and the model contents; the history is continued from the reloaded latest version; pruning mid-history must keep the latest version and everything from the last checkpoint not after n loadable; snapshots (table written by SaveSnapshot, pre-/post-order node streams generated from the reference, and the real Tree.Export stream of a reloaded version ingested into a fresh database) must import to the version's hash and contents; Tree.Export of every reloaded version equals the reference traversal in both orders; a copy of the database rolled back with SqliteDb.Revert to any retained version and continued with other writes behaves like a history that ended there.",
        "level_note": _TB + "F14 (leaves that stay in memory after a replayed load had no value) and F30 (Revert kept the branch rows of reverted versions in an unsharded tree table) were repaired; values are checked for every target. Continuing from an OLDER version is only exercised through Revert (LoadVersion of an older version followed by SaveVersion on the same rows is not a supported use of v2). The harness waits for v2's background prune passes (reported through the logger) before Close and takes no snapshot after DeleteVersionsTo (v2 exits the process otherwise); with CheckpointMemory the checkpoint positions are not known to the harness, so that option is never combined with pruning.",
    },
}

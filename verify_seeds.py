#!/usr/bin/env python3
"""verify_seeds.py [<id>/<m> ...]
Re-checks that the seeded changes kept under seeded/ are still caught by the CURRENT quick tier of a check that is
recorded as catching them (sensitivity regression after generator changes). For each seed: scratch worktree of /repo,
`git apply patch.diff`, `verif.py check <prop> quick` with VERIF_REPO=<worktree>; the worktree is removed afterwards.
Writes seeded/RECHECK.json (summary) and prints one line per seed. Never touches /repo's working tree."""
import glob, json, os, shutil, subprocess, sys, time

ROOT = os.path.dirname(os.path.abspath(__file__))
env = dict(os.environ, GOFLAGS='-mod=mod', GOPROXY='off', GOSUMDB='off', GOTOOLCHAIN='local')
want = sys.argv[1:]
out = {}
sumpath = os.path.join(ROOT, 'seeded', 'RECHECK.json')
if os.path.exists(sumpath):
    out = json.load(open(sumpath))
for meta in sorted(glob.glob(os.path.join(ROOT, 'seeded', '*', '*', 'meta.json'))):
    d = os.path.dirname(meta)
    pid, m = d.split('/')[-2:]
    name = pid + '/' + m
    if want and name not in want:
        continue
    md = json.load(open(meta))
    checks = md.get('confirmed', {}).get('checks', {})
    catching = [k for k, v in checks.items() if v.get('detected')]
    prop = pid if pid in catching else (catching[0] if catching else pid)
    wt = '/tmp/sc/recheck_' + pid + '_' + m
    scratch = wt + '_work'
    subprocess.run(['git', '-C', '/repo', 'worktree', 'remove', '--force', wt], capture_output=True)
    shutil.rmtree(scratch, ignore_errors=True)
    os.makedirs('/tmp/sc', exist_ok=True)
    r = subprocess.run(['git', '-C', '/repo', 'worktree', 'add', '--detach', wt, 'HEAD'], capture_output=True, text=True)
    if r.returncode != 0:
        print(name, 'worktree failed', r.stderr[-200:]); continue
    try:
        if os.path.exists('/repo/cmd/legacydump/legacydump'):
            shutil.copy('/repo/cmd/legacydump/legacydump', wt + '/cmd/legacydump/legacydump')
        a = subprocess.run(['git', 'apply', os.path.join(d, 'patch.diff')], cwd=wt, capture_output=True, text=True)
        if a.returncode != 0:
            a = subprocess.run(['git', 'apply', '-3', os.path.join(d, 'patch.diff')], cwd=wt, capture_output=True, text=True)
        if a.returncode != 0:
            out[name] = {'prop': prop, 'result': 'patch does not apply'}
            print(name, 'patch does not apply'); continue
        t0 = time.time()
        e = dict(env, VERIF_REPO=wt, VERIF_SCRATCH=scratch)
        c = subprocess.run(['python3', os.path.join(ROOT, 'verif.py'), 'check', prop, 'quick'], cwd=ROOT, env=e, capture_output=True, text=True)
        lines = [l for l in c.stdout.splitlines() if l.startswith(('VIOLATION', 'OK', 'INCONCLUSIVE', '  detail'))]
        out[name] = {'prop': prop, 'exit': c.returncode, 'caught': c.returncode == 1, 'wall_s': round(time.time() - t0, 1), 'lines': [l[:300] for l in lines[:2]]}
        print(name, prop, 'CAUGHT' if c.returncode == 1 else 'exit=%d NOT CAUGHT' % c.returncode, round(time.time() - t0), 's', flush=True)
    finally:
        subprocess.run(['git', '-C', '/repo', 'worktree', 'remove', '--force', wt], capture_output=True)
        shutil.rmtree(scratch, ignore_errors=True)
        json.dump(out, open(sumpath, 'w'), indent=1, sort_keys=True)

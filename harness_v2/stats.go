package harness2

// Per-process statistics -> $VERIF_STATS (JSON), merged into /verif/evidence/<id>.json by verif.py.
// Known-findings file handling (read-only at run time).

import (
	"crypto/sha256"
	"encoding/hex"
	"encoding/json"
	"fmt"
	"os"
	"path/filepath"
	"sort"
	"sync"
)

type propStats struct {
	Evaluations int            `json:"evaluations"`
	Nontrivial  map[string]int `json:"nontrivial"` // case hash -> 1
	Labels      map[string]int `json:"labels"`
	Counters    map[string]int `json:"counters"`
	Samples     []any          `json:"samples"`
	KnownHits   map[string]int `json:"known_hits"`
}

var (
	statsMu sync.Mutex
	stats   = map[string]*propStats{}
)

func ps(prop string) *propStats {
	p := stats[prop]
	if p == nil {
		p = &propStats{Nontrivial: map[string]int{}, Labels: map[string]int{}, Counters: map[string]int{}, KnownHits: map[string]int{}}
		stats[prop] = p
	}
	return p
}

func hashOf(v any) string {
	b, _ := json.Marshal(v)
	h := sha256.Sum256(b)
	return hex.EncodeToString(h[:10])
}

const maxSamples = 4

// RecordCase is called once per completed (passing) case.
func RecordCase(prop string, caseRepr any, nontrivial bool, labels map[string]bool) {
	statsMu.Lock()
	defer statsMu.Unlock()
	p := ps(prop)
	p.Evaluations++
	for l, on := range labels {
		if on {
			p.Labels[l]++
		}
	}
	if nontrivial {
		h := hashOf(caseRepr)
		if _, dup := p.Nontrivial[h]; !dup {
			p.Nontrivial[h] = 1
			if len(p.Samples) < maxSamples {
				p.Samples = append(p.Samples, caseRepr)
			}
		}
	}
}

func Count(prop, counter string, n int) {
	statsMu.Lock()
	ps(prop).Counters[counter] += n
	statsMu.Unlock()
}

func KnownHit(prop, finding string) {
	statsMu.Lock()
	ps(prop).KnownHits[finding]++
	statsMu.Unlock()
}

func writeStats() {
	path := os.Getenv("VERIF_STATS")
	if path == "" {
		return
	}
	statsMu.Lock()
	defer statsMu.Unlock()
	b, _ := json.Marshal(stats)
	_ = os.WriteFile(path, b, 0o644)
}

// ---- known findings

type Finding struct {
	ID        string `json:"id"`
	Property  string `json:"property"`
	Status    string `json:"status"` // open | fixed
	Commit    string `json:"commit,omitempty"`
	What      string `json:"what"`
	Signature string `json:"signature,omitempty"`
	Replay    any    `json:"replay,omitempty"`
}

var (
	knownOnce sync.Once
	known     map[string]Finding
)

func verifRoot() string {
	if r := os.Getenv("VERIF_ROOT"); r != "" {
		return r
	}
	wd, _ := os.Getwd()
	return filepath.Dir(wd)
}

func loadKnown() {
	known = map[string]Finding{}
	b, err := os.ReadFile(filepath.Join(verifRoot(), "known_findings.json"))
	if err != nil {
		return
	}
	var f struct {
		Findings []Finding `json:"findings"`
	}
	if err := json.Unmarshal(b, &f); err != nil {
		panic(fmt.Sprintf("known_findings.json: %v", err))
	}
	for _, x := range f.Findings {
		known[x.ID] = x
	}
}

// Open reports whether finding id is listed as open (then generators steer around it and a failure
// matching its signature is counted as known instead of reported).
func Open(id string) bool {
	if os.Getenv("VERIF_NO_KNOWN") != "" {
		return false
	}
	knownOnce.Do(loadKnown)
	return known[id].Status == "open"
}

func sortedLabelKeys(m map[string]bool) []string {
	ks := make([]string, 0, len(m))
	for k, v := range m {
		if v {
			ks = append(ks, k)
		}
	}
	sort.Strings(ks)
	return ks
}

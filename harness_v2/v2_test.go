package harness2

// C19 (v2 computes the same tree as v1 and the reference) and C20 (v2 persistence).

import (
	"bytes"
	"context"
	"encoding/json"
	"fmt"
	"os"
	"path/filepath"
	"sort"
	"strings"
	"sync/atomic"
	"testing"
	"time"

	"github.com/cosmos/iavl"
	dbm "github.com/cosmos/iavl/db"
	iavl2 "github.com/cosmos/iavl/v2"
	"pgregory.net/rapid"
)

func TestMain(m *testing.M) {
	code := m.Run()
	writeStats()
	os.Exit(code)
}

// ref.go must stay the byte-identical reference model of the v1 harness
func TestRefModelIdentical(t *testing.T) {
	a, err1 := os.ReadFile("ref.go")
	b, err2 := os.ReadFile(filepath.Join("..", "harness", "ref.go"))
	if err1 != nil || err2 != nil {
		t.Skip("harness sources not side by side")
	}
	a = bytes.Replace(a, []byte("package harness2"), []byte("package harness"), 1)
	if !bytes.Equal(a, b) {
		t.Fatalf("harness_v2/ref.go differs from harness/ref.go")
	}
}

type V2Op struct {
	Del bool   `json:"del,omitempty"`
	K   []byte `json:"k"`
	V   []byte `json:"v,omitempty"`
}

type V2Query struct {
	Kind  string `json:"kind"` // fwd | incl | rev
	Start []byte `json:"start,omitempty"`
	End   []byte `json:"end,omitempty"`
	SNil  bool   `json:"start_nil,omitempty"`
	ENil  bool   `json:"end_nil,omitempty"`
}

type V2Case struct {
	Prop       string      `json:"property"`
	Shard      bool        `json:"shard_trees"`
	CI         int64       `json:"checkpoint_interval"`
	HF         int8        `json:"height_filter"`
	ED         int8        `json:"eviction_depth"`
	// CM: TreeOptions.CheckpointMemory (0 = off): additional checkpoints wherever the working set exceeds CM bytes, so
	// checkpoints fall on versions the interval alone would not choose (never combined with pruning: the versions that
	// must survive a prune are stated in terms of checkpoints, whose positions are then not known to the harness)
	CM uint64 `json:"checkpoint_memory,omitempty"`
	Versions   [][]V2Op    `json:"versions"`
	Queries    [][]V2Query `json:"queries,omitempty"`
	PruneAfter int         `json:"prune_after,omitempty"` // issue DeleteVersionsTo(PruneTo) after this many commits (0 = never)
	PruneTo    int64       `json:"prune_to,omitempty"`
	SnapshotAt int64       `json:"snapshot_at,omitempty"`
	SnapOrder  string      `json:"snapshot_order,omitempty"` // pre | post
	Continue   [][]V2Op    `json:"continue,omitempty"`       // history continued after close + reopen at the latest version
	Reload     bool        `json:"reload"`                   // C20 part enabled
	// Forced: versions whose commit is preceded by SetShouldCheckpoint() (a checkpoint the interval would not place)
	Forced []int64 `json:"forced_checkpoints,omitempty"`
	// ExportAt: the reloaded version whose node stream (Tree.Export, order ExportOrder) is written into a fresh database
	// with WriteSnapshot and loaded back; the stream of EVERY reloaded version is compared with the reference traversal
	ExportAt    int64  `json:"export_at,omitempty"`
	ExportOrder string `json:"export_order,omitempty"` // pre | post
	// RevertTo: after the reloads, a copy of the database directory is rolled back to this version (SqliteDb.Revert, the
	// library's rollback tool), the version is loaded and the history is continued with RevertContinue
	// Quiet: no reads between the commits (a full read after every commit pulls every node back into memory, which is
	// itself a schedule of touches; a client that only writes and commits leaves nodes evicted): only the hashes are
	// compared along the way, contents and queries are checked once after the last commit
	Quiet          bool     `json:"quiet,omitempty"`
	RevertTo       int64    `json:"revert_to,omitempty"`
	RevertContinue [][]V2Op `json:"revert_continue,omitempty"`
}

type Violation struct {
	Prop string `json:"property"`
	Obs  string `json:"observer"`
	Msg  string `json:"msg"`
}

func (v *Violation) Error() string { return v.Obs + ": " + v.Msg }

func outDir() string {
	d := os.Getenv("VERIF_OUT")
	if d == "" {
		d = filepath.Join(verifRoot(), "out")
	}
	_ = os.MkdirAll(d, 0o755)
	return d
}

func replayPath(prop string) string {
	return filepath.Join(outDir(), fmt.Sprintf("%s-replay-%s.json", prop, os.Getenv("VERIF_SHARD")))
}

func writeReplay(prop string, c any, v *Violation) string {
	b, _ := json.MarshalIndent(map[string]any{"history": c, "violation": v}, "", " ")
	p := replayPath(prop)
	_ = os.WriteFile(p, b, 0o644)
	return p
}

// v2's writer goroutines call os.Exit(1) right after logger.Error: print the VIOLATION line first.
type exitLogger struct {
	prop               string
	path               string
	leafDone, treeDone int32 // background prune passes that v2 reported as finished (or skipped)
}

func (l *exitLogger) Info(string, ...any) {}
func (l *exitLogger) Warn(string, ...any) {}
func (l *exitLogger) Debug(msg string, _ ...any) {
	switch {
	case strings.HasPrefix(msg, "done leaf prune"), strings.HasPrefix(msg, "skipping leaf prune"):
		atomic.AddInt32(&l.leafDone, 1)
	case strings.HasPrefix(msg, "done tree prune"):
		atomic.AddInt32(&l.treeDone, 1)
	}
}
func (l *exitLogger) Error(msg string, kv ...any) {
	fmt.Printf("VERIF-VIOLATION property=%s replay=%s observer=v2.logger_error :: v2 background writer reported: %s %v\n", l.prop, l.path, msg, kv)
	writeStats()
}

func tmpBase() string {
	base := os.Getenv("VERIF_TMP")
	if base == "" {
		base = "/dev/shm"
		if _, err := os.Stat(base); err != nil {
			base = os.TempDir()
		}
	}
	return base
}

// checkpoints of a history under interval ci, as v2 places them: version 1, then whenever version-last >= ci
func checkpointsOf(n int, ci int64, forced []int64) map[int64]bool {
	cps := map[int64]bool{1: true}
	last := int64(1)
	fc := map[int64]bool{}
	for _, f := range forced {
		fc[f] = true
	}
	for v := int64(2); v <= int64(n); v++ {
		if fc[v] || v-last >= ci {
			cps[v] = true
			last = v
		}
	}
	return cps
}

type v2Stats struct {
	checkpoints, nonCheckpointCommits, removals, rotations int
	reloadsUnknownCheckpoint                               int
	reloads, replayedReloads, replayedWithRemoval         int
	f14Skipped, queries, continued, snapshots, pruned     int
	pruneNotFinished                                      int
	workingQueries, forcedCheckpoints, exportsCompared    int
	exportRoundTrips, reverted, revertContinued           int
}

type verModel struct {
	root *RNode
	kv   map[string][]byte
}

func runV2(c V2Case) (v *Violation, st v2Stats) {
	defer func() {
		if r := recover(); r != nil {
			v = &Violation{Prop: c.Prop, Obs: "panic", Msg: fmt.Sprint(r)}
		}
	}()
	viol := func(obs, f string, a ...any) *Violation {
		return &Violation{Prop: c.Prop, Obs: obs, Msg: fmt.Sprintf(f, a...)}
	}
	dir, err := os.MkdirTemp(tmpBase(), "verif-v2-")
	if err != nil {
		return viol("harness", "%v", err), st
	}
	defer os.RemoveAll(dir)
	lg := &exitLogger{prop: c.Prop, path: writeReplay(c.Prop, c, &Violation{Prop: c.Prop, Obs: "v2.logger_error", Msg: "the v2 background writer logged an error and exited the process"})}
	pool := iavl2.NewNodePool()
	openAt := func(d string) (*iavl2.SqliteDb, *iavl2.Tree, error) {
		sql, err := iavl2.NewSqliteDb(pool, iavl2.SqliteDbOptions{Path: d, ShardTrees: c.Shard, Logger: lg})
		if err != nil {
			return nil, nil, err
		}
		opts := iavl2.DefaultTreeOptions()
		opts.CheckpointInterval = c.CI
		opts.HeightFilter = c.HF
		opts.EvictionDepth = c.ED
		opts.CheckpointMemory = c.CM
		return sql, iavl2.NewTree(sql, pool, opts), nil
	}
	open := func() (*iavl2.Tree, error) {
		_, t, err := openAt(dir)
		return t, err
	}
	tr, err := open()
	if err != nil {
		return viol("harness", "open: %v", err), st
	}
	closed := false
	defer func() {
		if !closed {
			_ = tr.Close()
		}
	}()
	v1 := iavl.NewMutableTree(dbm.NewMemDB(), 0, true, iavl.NewNopLogger())
	var wroot *RNode
	work := map[string][]byte{}
	models := map[int64]*verModel{}
	cnt0 := refCnt
	removedIn := map[int64]bool{}
	checkContents := func(t *iavl2.Tree, m *verModel, tag string, values bool) *Violation {
		for _, e := range sortedKVs(m.kv) {
			if values {
				has, err := t.Has(e.K)
				if err != nil || !has {
					return viol(tag+".has", "%s Has(%q)=%v,%v want true", tag, e.K, has, err)
				}
			}
			if values {
				g, err := t.Get(e.K)
				if err != nil || !bytes.Equal(g, e.V) {
					return viol(tag+".get", "%s Get(%q)=%q,%v want %q", tag, e.K, g, err, e.V)
				}
			}
		}
		for _, k := range []string{"\x00\x00", "zzz", "a\x01"} {
			if _, ok := m.kv[k]; ok {
				continue
			}
			if has, err := t.Has([]byte(k)); err != nil || has {
				return viol(tag+".has_absent", "%s Has(absent %q)=%v,%v", tag, k, has, err)
			}
			if g, err := t.Get([]byte(k)); err != nil || g != nil {
				return viol(tag+".get_absent", "%s Get(absent %q)=%q,%v", tag, k, g, err)
			}
		}
		if t.Size() != rsize(m.root) || t.Height() != rheight(m.root) {
			return viol(tag+".size_height", "%s Size=%d Height=%d want %d,%d", tag, t.Size(), t.Height(), rsize(m.root), rheight(m.root))
		}
		return nil
	}
	runQuery := func(t *iavl2.Tree, m *verModel, q V2Query, tag string, values bool) *Violation {
		var start, end []byte
		if !q.SNil {
			start = q.Start
		}
		if !q.ENil {
			end = q.End
		}
		var it iavl2.Iterator
		var err error
		switch q.Kind {
		case "fwd":
			it, err = t.Iterator(start, end, false)
		case "incl":
			it, err = t.Iterator(start, end, true)
		default:
			it, err = t.ReverseIterator(start, end)
		}
		if err != nil {
			return viol(tag+".iterator", "%s %s iterator(%q,%q): %v", tag, q.Kind, start, end, err)
		}
		var got []KV
		for ; it.Valid(); it.Next() {
			got = append(got, KV{cp(it.Key()), cp(it.Value())})
			if len(got) > 10000 {
				break
			}
		}
		if err := it.Error(); err != nil {
			return viol(tag+".iterator", "%s %s iterator(%q,%q) error: %v", tag, q.Kind, start, end, err)
		}
		_ = it.Close()
		want := expectRange(m.kv, start, end, q.Kind != "rev", q.Kind == "incl")
		ok := len(got) == len(want)
		for i := 0; ok && i < len(got); i++ {
			if !bytes.Equal(got[i].K, want[i].K) || (values && !bytes.Equal(got[i].V, want[i].V)) {
				ok = false
			}
		}
		if !ok {
			return viol(tag+".iterator", "%s %s iterator [%q,%q) start_nil=%v end_nil=%v = %s want %s", tag, q.Kind, start, end, q.SNil, q.ENil, fmtKVs(got), fmtKVs(want))
		}
		st.queries++
		return nil
	}
	apply := func(t *iavl2.Tree, ops []V2Op, withV1 bool) *Violation {
		for _, o := range ops {
			_, had := work[string(o.K)]
			if o.Del {
				old := work[string(o.K)]
				// (the return values of v2's Set/Remove are not part of C19/C20: only errors are checked)
				_, _, err := t.Remove(o.K)
				_ = old
				if err != nil {
					return viol("remove", "Remove(%q): %v", o.K, err)
				}
				if withV1 {
					_, _, _ = v1.Remove(o.K)
				}
				if had {
					wroot, _, _, _ = rremove(wroot, o.K)
					delete(work, string(o.K))
				}
			} else {
				val := o.V
				if val == nil {
					val = []byte{}
				}
				_, err := t.Set(o.K, val)
				if err != nil {
					return viol("set", "Set(%q): %v", o.K, err)
				}
				if withV1 {
					_, _ = v1.Set(o.K, val)
				}
				wroot, _ = rset(wroot, o.K, val)
				work[string(o.K)] = val
			}
		}
		return nil
	}
	cps := checkpointsOf(len(c.Versions)+len(c.Continue), c.CI, c.Forced)
	forced := map[int64]bool{}
	for _, f := range c.Forced {
		forced[f] = true
	}
	var latest int64
	snapshotTaken := false
	for vi, ops := range c.Versions {
		ver := int64(vi + 1)
		r0 := refCnt.Removals
		if x := apply(tr, ops, true); x != nil {
			return x, st
		}
		if refCnt.Removals > r0 {
			removedIn[ver] = true
		}
		// before the commit: working state
		lastVersion := vi == len(c.Versions)-1
		if !c.Quiet {
			if x := checkContents(tr, &verModel{wroot, work}, fmt.Sprintf("working state of version %d", ver), true); x != nil {
				return x, st
			}
		}
		if vi < len(c.Queries) && !c.Quiet {
			for _, q := range c.Queries[vi] {
				if x := runQuery(tr, &verModel{wroot, work}, q, fmt.Sprintf("working state of version %d", ver), true); x != nil {
					return x, st
				}
				st.workingQueries++
			}
		}
		if forced[ver] {
			tr.SetShouldCheckpoint()
			st.forcedCheckpoints++
		}
		h, nv, err := tr.SaveVersion()
		if err != nil || nv != ver {
			return viol("save", "SaveVersion=%d,%v want %d", nv, err, ver), st
		}
		want := rhash(wroot, ver, true)
		h1, nv1, err1 := v1.SaveVersion()
		if err1 != nil || nv1 != ver || !bytes.Equal(h1, want) {
			return viol("v1.hash", "v1 SaveVersion(%d)=%x,%v, reference %x", ver, h1, err1, want), st
		}
		if !bytes.Equal(h, want) {
			return viol("hash", "v2 SaveVersion(%d) hash %x; v1 and the reference: %x", ver, h, want), st
		}
		if hh := tr.Hash(); !bytes.Equal(hh, want) {
			return viol("hash", "v2 Hash() after SaveVersion(%d) = %x want %x", ver, hh, want), st
		}
		m := &verModel{wroot, copyKV(work)}
		models[ver] = m
		latest = ver
		if cps[ver] {
			st.checkpoints++
		} else {
			st.nonCheckpointCommits++
		}
		tag := fmt.Sprintf("version %d", ver)
		// (the range queries come first: the lookups of checkContents pull every evicted node back into memory, and an
		// iterator that has to load children itself is the case of interest right after a commit)
		if vi < len(c.Queries) && (!c.Quiet || lastVersion) {
			for _, q := range c.Queries[vi] {
				if x := runQuery(tr, m, q, tag, true); x != nil {
					return x, st
				}
			}
		}
		if !c.Quiet || lastVersion {
			if x := checkContents(tr, m, tag, true); x != nil {
				return x, st
			}
		}
		if c.SnapshotAt == ver && c.Reload && wroot != nil { // (SaveSnapshot of an empty tree returns an error: not generated)
			if err := tr.SaveSnapshot(); err != nil {
				return viol("snapshot.save", "SaveSnapshot at version %d: %v", ver, err), st
			}
			snapshotTaken = true
		}
		if c.PruneAfter == vi+1 && c.PruneTo > 0 && c.PruneTo < ver && c.Reload {
			if err := tr.DeleteVersionsTo(c.PruneTo); err != nil {
				return viol("prune", "DeleteVersionsTo(%d): %v", c.PruneTo, err), st
			}
			st.pruned++
		}
	}
	st.removals = refCnt.Removals - cnt0.Removals
	st.rotations = refCnt.Rot - cnt0.Rot
	if !c.Reload || latest == 0 {
		return nil, st
	}
	// ---------------- C20: close, reopen, load every retained target
	if st.pruned > 0 {
		// Closing the database while the background pruning loops are still working makes them fail on the closed
		// connection, and v2 then exits the process: wait until v2 reports both prune passes as done (bounded).
		deadline := time.Now().Add(20 * time.Second)
		for (atomic.LoadInt32(&lg.leafDone) < int32(st.pruned) || atomic.LoadInt32(&lg.treeDone) < int32(st.pruned)) && time.Now().Before(deadline) {
			time.Sleep(2 * time.Millisecond)
		}
		if atomic.LoadInt32(&lg.leafDone) < int32(st.pruned) || atomic.LoadInt32(&lg.treeDone) < int32(st.pruned) {
			st.pruneNotFinished++
			closed = true // leak the handle rather than close under the pruner; nothing further is asserted for this case
			return nil, st
		}
	}
	if err := tr.Close(); err != nil {
		return viol("close", "Close: %v", err), st
	}
	closed = true
	keepFrom := int64(1)
	if st.pruned > 0 {
		for cp := range cps {
			if cp <= c.PruneTo && cp > keepFrom && cp <= latest {
				keepFrom = cp
			}
		}
	}
	for target := keepFrom; target <= latest; target++ {
		t2, err := open()
		if err != nil {
			return viol("reopen", "reopen: %v", err), st
		}
		if err := t2.LoadVersion(target); err != nil {
			_ = t2.Close()
			return viol("load", "LoadVersion(%d) after close+reopen (checkpoints %v, pruned to %d): %v", target, sortedCps(cps, latest), c.PruneTo*int64(st.pruned), err), st
		}
		m := models[target]
		if h := t2.Hash(); !bytes.Equal(h, m.root.hashOrEmpty()) {
			_ = t2.Close()
			return viol("load.hash", "LoadVersion(%d): hash %x want %x", target, h, m.root.hashOrEmpty()), st
		}
		if t2.Version() != target {
			_ = t2.Close()
			return viol("load.version", "LoadVersion(%d): Version()=%d", target, t2.Version()), st
		}
		replayed := !cps[target]
		values := true
		if replayed && c.CM > 0 {
			st.reloadsUnknownCheckpoint++ // checkpoint positions are not known to the harness: not counted as replayed
		} else if replayed {
			st.replayedReloads++
			sawRemoval := false
			for x := target; x >= 1 && !cps[x]; x-- {
				if removedIn[x] {
					sawRemoval = true
				}
			}
			if sawRemoval {
				st.replayedWithRemoval++
			}
			if Open("F14") && (c.HF == 0 || rsize(m.root) == 1) {
				values = false
				st.f14Skipped++
			}
		}
		st.reloads++
		tag := fmt.Sprintf("reloaded version %d", target)
		if int(target) <= len(c.Queries) {
			// bounded queries on the freshly loaded tree, before anything else has pulled its nodes into memory
			for _, q := range c.Queries[target-1] {
				if x := runQuery(t2, m, q, tag, values); x != nil {
					_ = t2.Close()
					return x, st
				}
			}
		}
		if x := checkContents(t2, m, tag, values); x != nil {
			_ = t2.Close()
			return x, st
		}
		if x := runQuery(t2, m, V2Query{Kind: "fwd", SNil: true, ENil: true}, tag, values); x != nil {
			_ = t2.Close()
			return x, st
		}
		if x := runQuery(t2, m, V2Query{Kind: "rev", SNil: true, ENil: true}, tag, values); x != nil {
			_ = t2.Close()
			return x, st
		}
		if m.root != nil { // (Tree.Export of an empty tree is not generated, like SaveSnapshot of one)
			for _, ord := range []string{"pre", "post"} {
				if x := compareExport(c, t2, m, ord, tag, values); x != nil {
					_ = t2.Close()
					return x, st
				}
				st.exportsCompared++
			}
			if c.ExportAt == target && values {
				order := iavl2.PreOrder
				if c.ExportOrder == "post" {
					order = iavl2.PostOrder
				}
				ex := t2.Export(order)
				if x := snapshotImportFrom(c, m, lg, target, c.ExportOrder, ex.Next, "stream of Tree.Export on the "+tag); x != nil {
					_ = t2.Close()
					return x, st
				}
				st.exportRoundTrips++
			}
		}
		if target == latest && len(c.Continue) > 0 {
			// continue the history from the reloaded latest version: same hashes as an uninterrupted run
			wroot, work = m.root, copyKV(m.kv)
			for ci, ops := range c.Continue {
				ver := latest + int64(ci) + 1
				if x := apply(t2, ops, false); x != nil {
					_ = t2.Close()
					return x, st
				}
				h, nv, err := t2.SaveVersion()
				want := rhash(wroot, ver, true)
				if err != nil || nv != ver || !bytes.Equal(h, want) {
					_ = t2.Close()
					return viol("continue.hash", "after reload at %d: SaveVersion=%d,%x,%v want %d,%x", latest, nv, h, err, ver, want), st
				}
				cm := &verModel{wroot, copyKV(work)}
				if x := checkContents(t2, cm, fmt.Sprintf("continued version %d", ver), values); x != nil {
					_ = t2.Close()
					return x, st
				}
				st.continued++
			}
		}
		if err := t2.Close(); err != nil {
			return viol("close", "Close after reload: %v", err), st
		}
	}
	if c.RevertTo >= keepFrom && c.RevertTo >= 1 && c.RevertTo <= latest && st.pruned == 0 && !snapshotTaken {
		if x := revertAndContinue(c, dir, openAt, models, &st); x != nil {
			return x, st
		}
	}
	if snapshotTaken {
		t3, err := open()
		if err != nil {
			return viol("reopen", "reopen: %v", err), st
		}
		order := iavl2.PreOrder // Tree.SaveSnapshot writes the table in pre-order
		if err := t3.LoadSnapshot(c.SnapshotAt, order); err != nil {
			_ = t3.Close()
			return viol("snapshot.load", "LoadSnapshot(%d,%s): %v", c.SnapshotAt, c.SnapOrder, err), st
		}
		m := models[c.SnapshotAt]
		if h := t3.Hash(); !bytes.Equal(h, m.root.hashOrEmpty()) {
			_ = t3.Close()
			return viol("snapshot.hash", "LoadSnapshot(%d): hash %x want %x", c.SnapshotAt, h, m.root.hashOrEmpty()), st
		}
		if x := checkContents(t3, m, fmt.Sprintf("snapshot of version %d", c.SnapshotAt), true); x != nil {
			_ = t3.Close()
			return x, st
		}
		st.snapshots++
		_ = t3.Close()
	}
	if c.SnapshotAt > 0 && models[c.SnapshotAt] != nil && models[c.SnapshotAt].root != nil {
		// snapshot ingestion from a node stream (pre- or post-order) into a fresh database
		if x := snapshotImport(c, models[c.SnapshotAt], lg); x != nil {
			return x, st
		}
		st.snapshots++
	}
	return nil, st
}

// refStream: the reference traversal of a version (pre- or post-order) as snapshot nodes
func refStream(m *verModel, order string) []*RNode {
	var nodes []*RNode
	if order == "post" {
		rpost(m.root, func(n *RNode) { nodes = append(nodes, n) })
		return nodes
	}
	var pre func(n *RNode)
	pre = func(n *RNode) {
		nodes = append(nodes, n)
		if !n.leaf() {
			pre(n.Left)
			pre(n.Right)
		}
	}
	pre(m.root)
	return nodes
}

func snapshotImport(c V2Case, m *verModel, lg iavl2.Logger) *Violation {
	nodes := refStream(m, c.SnapOrder)
	i := 0
	next := func() (*iavl2.SnapshotNode, error) {
		if i >= len(nodes) {
			return nil, nil
		}
		n := nodes[i]
		i++
		return &iavl2.SnapshotNode{Key: n.Key, Value: n.Value, Version: n.Version, Height: n.Height}, nil
	}
	return snapshotImportFrom(c, m, lg, c.SnapshotAt, c.SnapOrder, next, fmt.Sprintf("reference stream of %d nodes", len(nodes)))
}

// snapshotImportFrom writes a node stream into a fresh database (WriteSnapshot), loads it (LoadSnapshot) and compares
// hash, contents and size with the model of that version
func snapshotImportFrom(c V2Case, m *verModel, lg iavl2.Logger, version int64, ord string, next func() (*iavl2.SnapshotNode, error), what string) *Violation {
	viol := func(obs, f string, a ...any) *Violation {
		return &Violation{Prop: c.Prop, Obs: obs, Msg: fmt.Sprintf(f, a...)}
	}
	dir, err := os.MkdirTemp(tmpBase(), "verif-v2snap-")
	if err != nil {
		return viol("harness", "%v", err)
	}
	defer os.RemoveAll(dir)
	pool := iavl2.NewNodePool()
	sql, err := iavl2.NewSqliteDb(pool, iavl2.SqliteDbOptions{Path: dir, ShardTrees: c.Shard, Logger: lg})
	if err != nil {
		return viol("harness", "%v", err)
	}
	order := iavl2.PreOrder
	if ord == "post" {
		order = iavl2.PostOrder
	}
	if _, err := sql.WriteSnapshot(context.Background(), version, next, iavl2.SnapshotOptions{StoreLeafValues: true, WriteCheckpoint: true, TraverseOrder: order}); err != nil {
		_ = sql.Close()
		return viol("snapshot.write", "WriteSnapshot(%d, %s-order, %s): %v", version, ord, what, err)
	}
	opts := iavl2.DefaultTreeOptions()
	opts.CheckpointInterval, opts.HeightFilter, opts.EvictionDepth = c.CI, c.HF, c.ED
	t := iavl2.NewTree(sql, pool, opts)
	defer t.Close()
	if err := t.LoadSnapshot(version, order); err != nil {
		return viol("snapshot.import", "LoadSnapshot(%d,%s) of an ingested snapshot: %v", version, ord, err)
	}
	if h := t.Hash(); !bytes.Equal(h, m.root.hashOrEmpty()) {
		return viol("snapshot.import_hash", "ingested %s-order snapshot of version %d: hash %x want %x", ord, version, h, m.root.hashOrEmpty())
	}
	for _, e := range sortedKVs(m.kv) {
		g, err := t.Get(e.K)
		if err != nil || !bytes.Equal(g, e.V) {
			return viol("snapshot.import_get", "ingested %s-order snapshot of version %d: Get(%q)=%q,%v want %q", ord, version, e.K, g, err, e.V)
		}
	}
	if t.Size() != rsize(m.root) {
		return viol("snapshot.import_size", "ingested snapshot Size=%d want %d", t.Size(), rsize(m.root))
	}
	return nil
}


// compareExport: the node stream of Tree.Export equals the reference traversal (key, leaf value, node version, height)
func compareExport(c V2Case, t *iavl2.Tree, m *verModel, ord, tag string, values bool) *Violation {
	viol := func(obs, f string, a ...any) *Violation {
		return &Violation{Prop: c.Prop, Obs: obs, Msg: fmt.Sprintf(f, a...)}
	}
	order := iavl2.PreOrder
	if ord == "post" {
		order = iavl2.PostOrder
	}
	want := refStream(m, ord)
	ex := t.Export(order)
	i := 0
	for {
		n, err := ex.Next()
		if err == iavl2.ErrorExportDone || (err == nil && n == nil) {
			break
		}
		if err != nil {
			return viol("export.error", "%s: %s-order Export: %v after %d nodes", tag, ord, err, i)
		}
		if i >= len(want) {
			return viol("export.stream", "%s: %s-order Export yields more than the %d nodes of the reference traversal (extra: key %q version %d height %d)", tag, ord, len(want), n.Key, n.Version, n.Height)
		}
		w := want[i]
		if !bytes.Equal(n.Key, w.Key) || n.Version != w.Version || n.Height != w.Height || (values && w.leaf() && !bytes.Equal(n.Value, w.Value)) {
			return viol("export.stream", "%s: %s-order Export node %d = (key %q value %q version %d height %d), reference (key %q value %q version %d height %d)", tag, ord, i, n.Key, n.Value, n.Version, n.Height, w.Key, w.Value, w.Version, w.Height)
		}
		i++
	}
	if i != len(want) {
		return viol("export.stream", "%s: %s-order Export ended after %d of %d nodes", tag, ord, i, len(want))
	}
	return nil
}

func copyDir(src, dst string) error {
	ents, err := os.ReadDir(src)
	if err != nil {
		return err
	}
	for _, e := range ents {
		if e.IsDir() {
			continue
		}
		b, err := os.ReadFile(filepath.Join(src, e.Name()))
		if err != nil {
			return err
		}
		if err := os.WriteFile(filepath.Join(dst, e.Name()), b, 0o644); err != nil {
			return err
		}
	}
	return nil
}

// revertAndContinue: a copy of the closed database is rolled back to c.RevertTo with the library's rollback primitive
// (SqliteDb.Revert, what cmd/rollback does), that version is loaded and the history continues with other writes: the
// hashes must be those of a run that never had the later versions (the model is forked at RevertTo), and every version
// of the new history must reload after close + reopen.
func revertAndContinue(c V2Case, dir string, openAt func(string) (*iavl2.SqliteDb, *iavl2.Tree, error), models map[int64]*verModel, st *v2Stats) *Violation {
	viol := func(obs, f string, a ...any) *Violation {
		return &Violation{Prop: c.Prop, Obs: obs, Msg: fmt.Sprintf(f, a...)}
	}
	dir2, err := os.MkdirTemp(tmpBase(), "verif-v2rev-")
	if err != nil {
		return viol("harness", "%v", err)
	}
	defer os.RemoveAll(dir2)
	if err := copyDir(dir, dir2); err != nil {
		return viol("harness", "copy: %v", err)
	}
	// as cmd/rollback does it: a bare SqliteDb (no tree, no writer goroutines), Revert, Close
	rsql, err := iavl2.NewSqliteDb(iavl2.NewNodePool(), iavl2.SqliteDbOptions{Path: dir2, ShardTrees: c.Shard})
	if err != nil {
		return viol("reopen", "reopen of the copy: %v", err)
	}
	if err := rsql.Revert(int(c.RevertTo)); err != nil {
		_ = rsql.Close()
		return viol("revert", "Revert(%d): %v", c.RevertTo, err)
	}
	if err := rsql.Close(); err != nil {
		return viol("revert", "Close after Revert(%d): %v", c.RevertTo, err)
	}
	_, t, err := openAt(dir2)
	if err != nil {
		return viol("reopen", "reopen of the reverted copy: %v", err)
	}
	closed := false
	defer func() {
		if !closed {
			_ = t.Close()
		}
	}()
	if err := t.LoadVersion(c.RevertTo); err != nil {
		return viol("revert.load", "LoadVersion(%d) after Revert(%d): %v", c.RevertTo, c.RevertTo, err)
	}
	m := models[c.RevertTo]
	if h := t.Hash(); !bytes.Equal(h, m.root.hashOrEmpty()) || t.Version() != c.RevertTo {
		return viol("revert.hash", "after Revert(%d)+LoadVersion: version %d hash %x want %x", c.RevertTo, t.Version(), h, m.root.hashOrEmpty())
	}
	st.reverted++
	wroot, work := m.root, copyKV(m.kv)
	newModels := map[int64]*verModel{}
	ver := c.RevertTo
	for _, ops := range c.RevertContinue {
		ver++
		for _, o := range ops {
			if o.Del {
				if _, _, err := t.Remove(o.K); err != nil {
					return viol("revert.remove", "Remove(%q): %v", o.K, err)
				}
				if _, had := work[string(o.K)]; had {
					wroot, _, _, _ = rremove(wroot, o.K)
					delete(work, string(o.K))
				}
			} else {
				val := o.V
				if val == nil {
					val = []byte{}
				}
				if _, err := t.Set(o.K, val); err != nil {
					return viol("revert.set", "Set(%q): %v", o.K, err)
				}
				wroot, _ = rset(wroot, o.K, val)
				work[string(o.K)] = val
			}
		}
		h, nv, err := t.SaveVersion()
		want := rhash(wroot, ver, true)
		if err != nil || nv != ver || !bytes.Equal(h, want) {
			return viol("revert.continue_hash", "after Revert(%d): SaveVersion=%d,%x,%v want %d,%x", c.RevertTo, nv, h, err, ver, want)
		}
		newModels[ver] = &verModel{wroot, copyKV(work)}
		for _, e := range sortedKVs(work) {
			g, err := t.Get(e.K)
			if err != nil || !bytes.Equal(g, e.V) {
				return viol("revert.continue_get", "after Revert(%d), version %d: Get(%q)=%q,%v want %q", c.RevertTo, ver, e.K, g, err, e.V)
			}
		}
		st.revertContinued++
	}
	if err := t.Close(); err != nil {
		return viol("close", "Close after revert: %v", err)
	}
	closed = true
	for v := c.RevertTo; v <= ver; v++ {
		mm := newModels[v]
		if v == c.RevertTo {
			mm = m
		}
		_, t2, err := openAt(dir2)
		if err != nil {
			return viol("reopen", "reopen after revert: %v", err)
		}
		if err := t2.LoadVersion(v); err != nil {
			_ = t2.Close()
			return viol("revert.reload", "history reverted to %d and continued to %d: LoadVersion(%d): %v", c.RevertTo, ver, v, err)
		}
		if h := t2.Hash(); !bytes.Equal(h, mm.root.hashOrEmpty()) {
			_ = t2.Close()
			return viol("revert.reload_hash", "history reverted to %d and continued to %d: LoadVersion(%d) hash %x want %x", c.RevertTo, ver, v, h, mm.root.hashOrEmpty())
		}
		for _, e := range sortedKVs(mm.kv) {
			g, err := t2.Get(e.K)
			if err != nil || !bytes.Equal(g, e.V) {
				_ = t2.Close()
				return viol("revert.reload_get", "history reverted to %d and continued to %d: version %d Get(%q)=%q,%v want %q", c.RevertTo, ver, v, e.K, g, err, e.V)
			}
		}
		if err := t2.Close(); err != nil {
			return viol("close", "Close: %v", err)
		}
	}
	return nil
}

func sortedCps(cps map[int64]bool, upto int64) []int64 {
	var out []int64
	for c := range cps {
		if c <= upto {
			out = append(out, c)
		}
	}
	sort.Slice(out, func(i, j int) bool { return out[i] < out[j] })
	return out
}

func (n *RNode) hashOrEmpty() []byte {
	if n == nil {
		return emptyHash
	}
	return n.Hash
}

func fmtKVs(kvs []KV) string {
	var b bytes.Buffer
	b.WriteByte('[')
	for i, kv := range kvs {
		if i > 0 {
			b.WriteByte(' ')
		}
		fmt.Fprintf(&b, "%q=%q", kv.K, kv.V)
	}
	b.WriteByte(']')
	return b.String()
}

// ---------------------------------------------------------------- generators

var keyPool = []string{"a", "b", "c", "d", "e", "f", "g", "h", "ab", "abc", "b\x00", "b\xff", "\x00", "\xff", "\xff\xff"}

func genKey(t *rapid.T, existing map[string][]byte) []byte {
	c := rapid.IntRange(0, 9).Draw(t, "kc")
	if rapid.IntRange(0, 29).Draw(t, "kempty") == 0 {
		return []byte{} // the empty key is a legal tree key (v1 accepts it)
	}
	switch {
	case c < 4:
		return []byte(rapid.SampledFrom(keyPool).Draw(t, "kp"))
	case c < 7:
		return []byte(rapid.StringMatching(`[a-d]{1,3}`).Draw(t, "kr"))
	case c < 9 && len(existing) > 0:
		return []byte(rapid.SampledFrom(sortedKeys(existing)).Draw(t, "ke"))
	default:
		if rapid.IntRange(0, 5).Draw(t, "klong") == 0 {
			// length-boundary keys (varint length prefixes of 1 and 2 bytes)
			n := rapid.SampledFrom([]int{127, 128, 129, 300}).Draw(t, "klen")
			return append(bytes.Repeat([]byte{'L'}, n-1), byte('a'+rapid.IntRange(0, 2).Draw(t, "klast")))
		}
		return []byte(fmt.Sprintf("k%03d", rapid.IntRange(0, 60).Draw(t, "kn")))
	}
}

func genBound(t *rapid.T, keys []string, label string) ([]byte, bool) {
	switch rapid.IntRange(0, 5).Draw(t, label+"c") {
	case 0:
		return nil, true
	case 1, 2, 3:
		if len(keys) > 0 {
			k := rapid.SampledFrom(keys).Draw(t, label+"k")
			switch rapid.IntRange(0, 3).Draw(t, label+"m") {
			case 0, 1:
				return []byte(k), false
			case 2:
				return []byte(k + "\x00"), false
			default:
				if len(k) > 1 {
					return []byte(k[:len(k)-1]), false
				}
				return []byte(k), false
			}
		}
	}
	return genKey(t, nil), false
}

func genVersionOps(t *rapid.T, work map[string][]byte, sorted bool, label string) []V2Op {
	n := rapid.IntRange(0, 7).Draw(t, label+"n")
	if rapid.IntRange(0, 9).Draw(t, label+"big") == 0 {
		n = rapid.IntRange(8, 25).Draw(t, label+"nbig")
	}
	seen := map[string]bool{}
	var ops []V2Op
	for i := 0; i < n; i++ {
		k := genKey(t, work)
		if seen[string(k)] {
			continue // normal form: at most one write or removal per key per version
		}
		seen[string(k)] = true
		_, present := work[string(k)]
		if present && rapid.IntRange(0, 2).Draw(t, label+"rm") == 0 || !present && rapid.IntRange(0, 9).Draw(t, label+"rmabs") == 0 {
			ops = append(ops, V2Op{Del: true, K: k})
		} else {
			val := rapid.SliceOfN(rapid.Byte(), 0, 3).Draw(t, label+"v")
			if rapid.IntRange(0, 11).Draw(t, label+"vlong") == 0 {
				val = bytes.Repeat([]byte{byte(rapid.IntRange(0, 255).Draw(t, label+"vb"))}, rapid.SampledFrom([]int{127, 128, 200, 5000}).Draw(t, label+"vlen"))
			}
			if present && rapid.IntRange(0, 4).Draw(t, label+"same") == 0 {
				val = work[string(k)] // rewrite of the identical value
			}
			ops = append(ops, V2Op{K: k, V: val})
		}
	}
	if sorted {
		sort.Slice(ops, func(i, j int) bool { return bytes.Compare(ops[i].K, ops[j].K) < 0 })
	}
	for _, o := range ops {
		if o.Del {
			delete(work, string(o.K))
		} else {
			v := o.V
			if v == nil {
				v = []byte{}
			}
			work[string(o.K)] = v
		}
	}
	return ops
}

func genV2Case(t *rapid.T, prop string, reload bool) V2Case {
	c := V2Case{Prop: prop, Reload: reload, Shard: rapid.Bool().Draw(t, "shard"), CI: rapid.SampledFrom([]int64{1, 2, 3, 5, 7, 1000}).Draw(t, "ci"),
		HF: int8(rapid.IntRange(0, 1).Draw(t, "hf")), ED: rapid.SampledFrom([]int8{-1, 0, 1, 2, 8}).Draw(t, "ed")}
	c.Quiet = rapid.IntRange(0, 2).Draw(t, "quiet") == 0
	sorted := rapid.IntRange(0, 2).Draw(t, "sorted") != 0
	work := map[string][]byte{}
	nver := rapid.IntRange(1, 10).Draw(t, "nver")
	if reload && rapid.IntRange(0, 3).Draw(t, "long") == 0 {
		nver = rapid.IntRange(10, 24).Draw(t, "nverLong")
	}
	for v := 1; v <= nver; v++ {
		if rapid.IntRange(0, 14).Draw(t, "shrink") == 0 && len(work) > 0 {
			// shrink to empty
			var ops []V2Op
			for _, k := range sortedKeys(work) {
				ops = append(ops, V2Op{Del: true, K: []byte(k)})
			}
			work = map[string][]byte{}
			c.Versions = append(c.Versions, ops)
		} else {
			c.Versions = append(c.Versions, genVersionOps(t, work, sorted, "v"))
		}
		var qs []V2Query
		nq := rapid.IntRange(0, 3).Draw(t, "nq")
		for i := 0; i < nq; i++ {
			q := V2Query{Kind: rapid.SampledFrom([]string{"fwd", "incl", "rev"}).Draw(t, "qk")}
			q.Start, q.SNil = genBound(t, sortedKeys(work), "qs")
			q.End, q.ENil = genBound(t, sortedKeys(work), "qe")
			qs = append(qs, q)
		}
		c.Queries = append(c.Queries, qs)
	}
	if !reload {
		c.CM = rapid.SampledFrom([]uint64{0, 0, 0, 1, 300, 3000}).Draw(t, "cm")
	}
	genForced := func() {
		if c.CM == 0 && nver >= 2 && rapid.IntRange(0, 2).Draw(t, "doForce") == 0 {
			nf := rapid.IntRange(1, 2).Draw(t, "nforce")
			seen := map[int64]bool{}
			for i := 0; i < nf; i++ {
				f := rapid.Int64Range(2, int64(nver)).Draw(t, "force")
				if !seen[f] {
					seen[f] = true
					c.Forced = append(c.Forced, f)
				}
			}
			sort.Slice(c.Forced, func(i, j int) bool { return c.Forced[i] < c.Forced[j] })
		}
	}
	if !reload {
		genForced()
	}
	if reload {
		if nver >= 3 && rapid.IntRange(0, 2).Draw(t, "doPrune") == 0 {
			c.PruneAfter = rapid.IntRange(2, nver).Draw(t, "pruneAfter")
			c.PruneTo = rapid.Int64Range(1, int64(c.PruneAfter)-1).Draw(t, "pruneTo")
		}
		if rapid.IntRange(0, 3).Draw(t, "doSnap") == 0 {
			// (a snapshot is never taken while background pruning may be running: SaveSnapshot and the pruning loop share
			// one sqlite connection, and v2 exits the process on the resulting 'SQL statements in progress' error)
			hi := int64(nver)
			if c.PruneAfter > 0 {
				hi = int64(c.PruneAfter) - 1
			}
			c.SnapshotAt = rapid.Int64Range(1, hi).Draw(t, "snapAt")
			c.SnapOrder = rapid.SampledFrom([]string{"pre", "post"}).Draw(t, "snapOrder")
		}
		if c.PruneAfter == 0 {
			c.CM = rapid.SampledFrom([]uint64{0, 0, 0, 1, 300, 3000}).Draw(t, "cm")
		}
		genForced()
		if rapid.IntRange(0, 2).Draw(t, "doExport") == 0 {
			c.ExportAt = rapid.Int64Range(1, int64(nver)).Draw(t, "exportAt")
			c.ExportOrder = rapid.SampledFrom([]string{"pre", "post"}).Draw(t, "exportOrder")
		}
		nc := rapid.IntRange(0, 3).Draw(t, "ncont")
		for i := 0; i < nc; i++ {
			c.Continue = append(c.Continue, genVersionOps(t, work, sorted, "c"))
		}
		if c.PruneAfter == 0 && c.SnapshotAt == 0 && rapid.IntRange(0, 2).Draw(t, "doRevert") == 0 {
			// roll a copy of the database back to an older (or the latest) version and continue with other writes
			c.RevertTo = rapid.Int64Range(1, int64(nver)).Draw(t, "revertTo")
			rwork := map[string][]byte{}
			for _, ops := range c.Versions[:c.RevertTo] {
				for _, o := range ops {
					if o.Del {
						delete(rwork, string(o.K))
					} else if o.V == nil {
						rwork[string(o.K)] = []byte{}
					} else {
						rwork[string(o.K)] = o.V
					}
				}
			}
			nr := rapid.IntRange(1, 4).Draw(t, "nrevcont")
			for i := 0; i < nr; i++ {
				c.RevertContinue = append(c.RevertContinue, genVersionOps(t, rwork, sorted, "r"))
			}
		}
	}
	return c
}

type failer interface {
	Fatalf(format string, args ...any)
}

func report(t failer, prop string, c V2Case, v *Violation) {
	path := writeReplay(prop, c, v)
	t.Fatalf("VERIF-VIOLATION property=%s replay=%s observer=%s :: %s", prop, path, v.Obs, v.Msg)
}

func TestC19(t *testing.T) {
	rapid.Check(t, func(rt *rapid.T) {
		c := genV2Case(rt, "C19", false)
		v, st := runV2(c)
		if v != nil {
			report(rt, "C19", c, v)
		}
		Count("C19", "iterator_queries", st.queries)
		Count("C19", "iterator_queries_on_working_state", st.workingQueries)
		Count("C19", "forced_checkpoints", st.forcedCheckpoints)
		RecordCase("C19", c, c.CM == 0 && st.checkpoints >= 1 && st.nonCheckpointCommits >= 1 && st.removals >= 1 && st.rotations >= 1,
			map[string]bool{"checkpoint_memory": c.CM > 0, "shard": c.Shard, fmt.Sprintf("ci_%d", c.CI): true, fmt.Sprintf("hf_%d", c.HF): true, fmt.Sprintf("ed_%d", c.ED): true, "rotations": st.rotations > 0, "removals": st.removals > 0, "forced_checkpoint": st.forcedCheckpoints > 0, "quiet_no_reads_between_commits": c.Quiet})
	})
}

func TestC20(t *testing.T) {
	rapid.Check(t, func(rt *rapid.T) {
		c := genV2Case(rt, "C20", true)
		v, st := runV2(c)
		if v != nil {
			report(rt, "C20", c, v)
		}
		Count("C20", "reloads", st.reloads)
		Count("C20", "replayed_reloads", st.replayedReloads)
		Count("C20", "value_checks_skipped_by_F14", st.f14Skipped)
		Count("C20", "continued_versions", st.continued)
		Count("C20", "snapshots_loaded", st.snapshots)
		Count("C20", "prunes", st.pruned)
		Count("C20", "forced_checkpoints", st.forcedCheckpoints)
		Count("C20", "export_streams_compared", st.exportsCompared)
		Count("C20", "export_write_load_round_trips", st.exportRoundTrips)
		Count("C20", "reverted_copies", st.reverted)
		Count("C20", "versions_committed_after_revert", st.revertContinued)
		Count("C20", "reloads_with_checkpoint_memory_option", st.reloadsUnknownCheckpoint)
		Count("C20", "prune_not_finished_in_20s_case_not_reloaded", st.pruneNotFinished)
		RecordCase("C20", c, st.replayedWithRemoval >= 1,
			map[string]bool{"shard": c.Shard, fmt.Sprintf("ci_%d", c.CI): true, "pruned": st.pruned > 0, "snapshot": st.snapshots > 0, "continued": st.continued > 0, "replayed_reload": st.replayedReloads > 0,
				"forced_checkpoint": st.forcedCheckpoints > 0, "export_round_trip": st.exportRoundTrips > 0, "reverted": st.reverted > 0, "reverted_to_older": st.reverted > 0 && c.RevertTo < int64(len(c.Versions))})
	})
}

// TestReplay: $VERIF_REPLAY or $VERIF_REPLAY_LIST (JSON list of paths)
func TestReplay(t *testing.T) {
	one := func(p string) (*Violation, error) {
		b, err := os.ReadFile(p)
		if err != nil {
			return nil, err
		}
		var rf struct {
			History V2Case `json:"history"`
		}
		if err := json.Unmarshal(b, &rf); err != nil {
			return nil, err
		}
		v, _ := runV2(rf.History)
		return v, nil
	}
	if p := os.Getenv("VERIF_REPLAY"); p != "" {
		v, err := one(p)
		if err != nil {
			t.Fatalf("replay %s: %v", p, err)
		}
		if v != nil {
			fmt.Printf("REPLAY-RESULT path=%s result=fail observer=%s :: %s\n", p, v.Obs, v.Msg)
			t.Fatalf("VERIF-VIOLATION property=%s replay=%s observer=%s :: %s", v.Prop, p, v.Obs, v.Msg)
		}
		fmt.Printf("REPLAY-RESULT path=%s result=pass\n", p)
		return
	}
	lst := os.Getenv("VERIF_REPLAY_LIST")
	if lst == "" {
		t.Skip("no replay requested")
	}
	var paths []string
	if err := json.Unmarshal([]byte(lst), &paths); err != nil {
		t.Fatalf("VERIF_REPLAY_LIST: %v", err)
	}
	for _, p := range paths {
		v, err := one(p)
		switch {
		case err != nil:
			fmt.Printf("REPLAY-RESULT path=%s result=error :: %v\n", p, err)
		case v != nil:
			fmt.Printf("REPLAY-RESULT path=%s result=fail observer=%s :: %s\n", p, v.Obs, v.Msg)
		default:
			fmt.Printf("REPLAY-RESULT path=%s result=pass\n", p)
		}
	}
}

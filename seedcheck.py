#!/usr/bin/env python3
"""seedcheck.py <seed dir> <property> [more properties...]
Confirms a seeded change (patch.diff + demo test) in a scratch worktree of /repo and runs the quick check(s)
of the given properties against it. Never touches /repo's working tree. Prints a JSON summary."""
import json, os, subprocess, sys, shutil, glob, time

seed = os.path.abspath(sys.argv[1]); props = sys.argv[2:]
name = seed.strip('/').replace('/', '_')
wt = '/tmp/sc/' + name
env = dict(os.environ, GOFLAGS='-mod=mod', GOPROXY='off', GOSUMDB='off', GOTOOLCHAIN='local')
def run(cmd, cwd=None, timeout=3600, extra=None):
    e = dict(env); e.update(extra or {})
    p = subprocess.run(cmd, cwd=cwd, env=e, stdout=subprocess.PIPE, stderr=subprocess.STDOUT, text=True, shell=isinstance(cmd, str), timeout=timeout)
    return p.returncode, p.stdout
os.makedirs('/tmp/sc', exist_ok=True)
run(['git', '-C', '/repo', 'worktree', 'remove', '--force', wt])
rc, out = run(['git', '-C', '/repo', 'worktree', 'add', '--detach', wt, 'HEAD'])
assert rc == 0, out
if os.path.exists('/repo/cmd/legacydump/legacydump'):
    shutil.copy('/repo/cmd/legacydump/legacydump', wt + '/cmd/legacydump/legacydump')  # git-ignored helper of migrate_test.go
res = {'seed': seed, 'props': props}
try:
    demos = glob.glob(seed + '/verifdemo_*_test.go')
    meta = json.load(open(seed + '/meta.json'))
    files = meta.get('files', [])
    sub = 'v2' if any(f.startswith('v2/') for f in files) else '.'
    if demos:
        import re
        m = re.search(r'^package (\w+)', open(demos[0]).read(), re.M)
        pkg = m.group(1) if m else 'iavl'
        if pkg in ('db', 'db_test'):
            sub = 'db'
        elif pkg.startswith('fastnode'):
            sub = 'fastnode'
        elif pkg in ('cache', 'cache_test'):
            sub = 'cache'
        elif pkg in ('encoding', 'encoding_test'):
            sub = 'internal/encoding'
        elif pkg in ('keyformat', 'keyformat_test'):
            sub = 'keyformat'
    # demo on the unchanged tree
    for d in demos:
        shutil.copy(d, os.path.join(wt, sub))
    runpat = 'TestVerifDemo'
    rc0, out0 = run(['go', 'test', '-vet=off', '-count=1', '-run', runpat, '.'], cwd=os.path.join(wt, sub), timeout=900)
    res['demo_unchanged'] = 'pass' if rc0 == 0 else 'FAIL'
    rc, out = run(['git', 'apply', seed + '/patch.diff'], cwd=wt)
    if rc != 0:
        rc, out = run(['git', 'apply', '-3', seed + '/patch.diff'], cwd=wt)
    res['apply'] = 'ok' if rc == 0 else 'FAILED: ' + out[-500:]
    if rc == 0:
        rcb, outb = run(['go', 'build', './...'], cwd=os.path.join(wt, sub))
        res['build'] = 'ok' if rcb == 0 else 'FAILED ' + outb[-500:]
        rc1, out1 = run(['go', 'test', '-vet=off', '-count=1', '-run', runpat, '.'], cwd=os.path.join(wt, sub), timeout=900)
        res['demo_changed'] = 'fail(as wanted)' if rc1 != 0 else 'PASSES(!)'
        res['demo_tail'] = out1[-400:] if rc1 != 0 else ''
        for d in demos:
            os.remove(os.path.join(wt, sub, os.path.basename(d)))
        for p in props:
            scratch = '/tmp/sc/work_' + name + '_' + p
            shutil.rmtree(scratch, ignore_errors=True); os.makedirs(scratch)
            t0 = time.time()
            rcx, outx = run(['python3', '/verif/verif.py', 'check', p, os.environ.get('SEED_TIER', 'quick')], cwd='/verif',
                            extra={'VERIF_REPO': wt, 'VERIF_SCRATCH': scratch}, timeout=7200)
            lines = [l for l in outx.splitlines() if l.startswith(('VIOLATION', 'INCONCLUSIVE', 'OK', '  detail', 'BUILD'))]
            res['check_' + p] = {'exit': rcx, 'wall': round(time.time() - t0, 1), 'lines': [l[:400] for l in lines[:6]]}
            if rcx == 1:
                # keep the replay file next to the seed result
                for l in lines:
                    if l.startswith('VIOLATION'):
                        rp = l.split('replay=')[1].strip()
                        if os.path.isfile(rp):
                            shutil.copy(rp, '/tmp/sc/replay_%s_%s.json' % (name, p))
            shutil.rmtree(scratch, ignore_errors=True)
finally:
    run(['git', '-C', '/repo', 'worktree', 'remove', '--force', wt])
    run('go clean -cache >/dev/null 2>&1 || true') if False else None
print(json.dumps(res, indent=1))

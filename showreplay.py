#!/usr/bin/env python3
"""Pretty-print a replay file (base64 byte fields decoded)."""
import json,base64,sys
d=json.load(open(sys.argv[1]))
h=d.get('history',d)
print({k:v for k,v in h.items() if k!='ops'})
for o in h.get('ops',[]):
    for f in ('k','v','start','end'):
        if f in o: o[f]=base64.b64decode(o[f])
    print(' ',o)
print(d.get('violation'))

// legacygen executes generated histories with the LEGACY library (iavl v0.20.0 on cometbft-db v0.7.0, both taken from the
// module cache) on an in-memory database and reports the raw key/value dump together with the root hashes and the available
// versions the legacy library itself reported. It is the oracle source for property C16 of /verif.
//
// Protocol: one JSON request per line on stdin, one JSON response per line on stdout.
package main

import (
	"bufio"
	"encoding/hex"
	"encoding/json"
	"fmt"
	"os"

	dbm "github.com/cometbft/cometbft-db"
	"github.com/cosmos/iavl"
)

type LOp struct {
	Kind string `json:"op"` // set | remove | save | delete | delete_range
	K    []byte `json:"k,omitempty"`
	V    []byte `json:"v,omitempty"`
	N    int64  `json:"n,omitempty"`
	M    int64  `json:"m,omitempty"`
}

type Req struct {
	Ops      []LOp `json:"ops"`
	SkipFast bool  `json:"skip_fast"`
	Cache    int   `json:"cache"`
}

type Resp struct {
	Err    string            `json:"err,omitempty"`
	KV     [][2]string       `json:"kv"`
	Hashes map[int64]string  `json:"hashes"`
	Avail  []int             `json:"avail"`
	Latest int64             `json:"latest"`
}

func run(req Req) (resp Resp) {
	defer func() {
		if r := recover(); r != nil {
			resp.Err = fmt.Sprintf("panic: %v", r)
		}
	}()
	db := dbm.NewMemDB()
	t, err := iavl.NewMutableTree(db, req.Cache, req.SkipFast)
	if err != nil {
		return Resp{Err: err.Error()}
	}
	resp.Hashes = map[int64]string{}
	for _, op := range req.Ops {
		switch op.Kind {
		case "set":
			v := op.V
			if v == nil {
				v = []byte{}
			}
			if _, err := t.Set(op.K, v); err != nil {
				return Resp{Err: err.Error()}
			}
		case "remove":
			if _, _, err := t.Remove(op.K); err != nil {
				return Resp{Err: err.Error()}
			}
		case "save":
			h, ver, err := t.SaveVersion()
			if err != nil {
				return Resp{Err: err.Error()}
			}
			resp.Hashes[ver] = hex.EncodeToString(h)
			resp.Latest = ver
		case "delete":
			if err := t.DeleteVersion(op.N); err != nil {
				return Resp{Err: fmt.Sprintf("DeleteVersion(%d): %v", op.N, err)}
			}
		case "delete_range":
			if err := t.DeleteVersionsRange(op.N, op.M); err != nil {
				return Resp{Err: fmt.Sprintf("DeleteVersionsRange(%d,%d): %v", op.N, op.M, err)}
			}
		}
	}
	resp.Avail = t.AvailableVersions()
	it, err := db.Iterator(nil, nil)
	if err != nil {
		return Resp{Err: err.Error()}
	}
	defer it.Close()
	for ; it.Valid(); it.Next() {
		resp.KV = append(resp.KV, [2]string{hex.EncodeToString(it.Key()), hex.EncodeToString(it.Value())})
	}
	return resp
}

func main() {
	in := bufio.NewReaderSize(os.Stdin, 1<<20)
	out := bufio.NewWriter(os.Stdout)
	enc := json.NewEncoder(out)
	for {
		line, err := in.ReadBytes('\n')
		if len(line) > 1 {
			var req Req
			if jerr := json.Unmarshal(line, &req); jerr != nil {
				_ = enc.Encode(Resp{Err: "bad request: " + jerr.Error()})
			} else {
				_ = enc.Encode(run(req))
			}
			out.Flush()
		}
		if err != nil {
			return
		}
	}
}

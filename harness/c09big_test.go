package harness

// C09 (and C04) at the scale where the library works in rounds: a rollback that erases, and a deletion of old versions
// that orphans, tens of thousands of node entries in one call (more than any internal batching limit: the importer's
// 10 000-node batches, a 2^16 key window, the 100 kB flush threshold many times over).

import (
	"bytes"
	"encoding/binary"
	"encoding/json"
	"fmt"
	"testing"

	"github.com/cosmos/iavl"
	dbm "github.com/cosmos/iavl/db"
	"pgregory.net/rapid"
)

type BigRollbackCase struct {
	Prop     string `json:"property"`
	Kind     string `json:"kind"` // big_rollback
	Keys     int    `json:"keys"`
	Versions int    `json:"versions"` // versions written on top of version 1, each rewriting every key
	Cache    int    `json:"cache"`
	Skip     bool   `json:"skip_fast"`
	Mode     string `json:"mode"` // lvfo | dvf | dvf_new_handle | prune
}

func bigKey(i int) []byte { return []byte(fmt.Sprintf("key-%06d", i)) }

func runBigRollback(c BigRollbackCase) (v *Violation) {
	defer func() {
		if r := recover(); r != nil {
			v = &Violation{Prop: c.Prop, Obs: "big.panic", Msg: fmt.Sprint(r)}
		}
	}()
	viol := func(obs, f string, a ...any) *Violation {
		return &Violation{Prop: c.Prop, Obs: "big." + obs, Msg: fmt.Sprintf(f, a...)}
	}
	db := dbm.NewMemDB()
	tr := iavl.NewMutableTree(db, c.Cache, c.Skip, iavl.NewNopLogger())
	if _, err := tr.Load(); err != nil {
		return viol("harness", "Load: %v", err)
	}
	var root *RNode
	roots := map[int64]*RNode{}
	commit := func(t *iavl.MutableTree, ver int64, val []byte, every int) *Violation {
		for i := 0; i < c.Keys; i += every {
			if _, err := t.Set(bigKey(i), val); err != nil {
				return viol("set", "Set: %v", err)
			}
			root, _ = rset(root, bigKey(i), val)
		}
		h, nv, err := t.SaveVersion()
		want := rhash(root, ver, true)
		if err != nil || nv != ver || !bytes.Equal(h, want) {
			return viol("save", "SaveVersion = %x,%d,%v want %x,%d", h, nv, err, want, ver)
		}
		roots[ver] = root
		return nil
	}
	if x := commit(tr, 1, []byte("1"), 1); x != nil {
		return x
	}
	latest := int64(1 + c.Versions)
	for ver := int64(2); ver <= latest; ver++ {
		if x := commit(tr, ver, []byte(fmt.Sprint(ver)), 1); x != nil {
			return x
		}
	}
	countNodeKeys := func(above, below int64) (n int) {
		for k := range DumpDB(db) {
			if len(k) == 13 && k[0] == 's' {
				ver := int64(binary.BigEndian.Uint64([]byte(k[1:9])))
				if ver > above && ver < below {
					n++
				}
			}
		}
		return n
	}
	checkVersion := func(t *iavl.MutableTree, ver int64, val string) *Violation {
		it, err := t.GetImmutable(ver)
		if err != nil {
			return viol("getimmutable", "GetImmutable(%d): %v", ver, err)
		}
		if !bytes.Equal(it.Hash(), rhash(roots[ver], 0, false)) {
			return viol("hash", "version %d hash %x want %x", ver, it.Hash(), rhash(roots[ver], 0, false))
		}
		n := 0
		bad := ""
		_, err = it.Iterate(func(k, v []byte) bool {
			if !bytes.Equal(k, bigKey(n)) || string(v) != val {
				bad = fmt.Sprintf("%q=%q at position %d", k, v, n)
				return true
			}
			n++
			return false
		})
		if err != nil || bad != "" || n != c.Keys {
			return viol("contents", "version %d iterates %d of %d pairs (%s, %v)", ver, n, c.Keys, bad, err)
		}
		for i := 0; i < c.Keys; i += 997 {
			g, err := it.Get(bigKey(i))
			if err != nil || string(g) != val {
				return viol("get", "version %d Get(%q)=%q,%v want %q", ver, bigKey(i), g, err, val)
			}
		}
		return nil
	}
	fresh := func() (*iavl.MutableTree, *Violation) {
		t := iavl.NewMutableTree(db, 0, c.Skip, iavl.NewNopLogger())
		if _, err := t.Load(); err != nil {
			return nil, viol("reopen", "Load() after %s: %v", c.Mode, err)
		}
		return t, nil
	}
	if c.Mode == "prune" {
		// delete every version but the latest in ONE call: tens of thousands of orphans
		if err := tr.DeleteVersionsTo(latest - 1); err != nil {
			return viol("prune", "DeleteVersionsTo(%d): %v", latest-1, err)
		}
		t2, x := fresh()
		if x != nil {
			return x
		}
		if av := t2.AvailableVersions(); len(av) != 1 || int64(av[0]) != latest {
			return viol("prune.available", "after DeleteVersionsTo(%d): AvailableVersions=%v want [%d]", latest-1, av, latest)
		}
		if x := checkVersion(t2, latest, fmt.Sprint(latest)); x != nil {
			return x
		}
		if n := countNodeKeys(0, latest); n != 0 {
			return viol("prune.leak", "after DeleteVersionsTo(%d) %d node entries of deleted versions are left (every key was rewritten in version %d)", latest-1, n, latest)
		}
		return nil
	}
	// roll back to version 1: 2 x Keys x Versions node entries are erased
	switch c.Mode {
	case "lvfo":
		if err := tr.LoadVersionForOverwriting(1); err != nil {
			return viol("rollback", "LoadVersionForOverwriting(1): %v", err)
		}
	case "dvf":
		if err := tr.DeleteVersionsFrom(2); err != nil {
			return viol("rollback", "DeleteVersionsFrom(2): %v", err)
		}
		if _, err := tr.LoadVersion(1); err != nil {
			return viol("rollback", "LoadVersion(1) after DeleteVersionsFrom(2): %v", err)
		}
	default:
		_ = tr.Close()
		tr = iavl.NewMutableTree(db, c.Cache, c.Skip, iavl.NewNopLogger())
		if err := tr.DeleteVersionsFrom(2); err != nil {
			return viol("rollback", "DeleteVersionsFrom(2) on a new handle: %v", err)
		}
		if _, err := tr.LoadVersion(1); err != nil {
			return viol("rollback", "LoadVersion(1) after DeleteVersionsFrom(2): %v", err)
		}
	}
	if n := countNodeKeys(1, 1<<62); n != 0 {
		return viol("rollback.leak", "after the rollback to version 1 the store still holds %d node entries of erased versions", n)
	}
	t2, x := fresh()
	if x != nil {
		return x
	}
	if av := t2.AvailableVersions(); len(av) != 1 || av[0] != 1 {
		return viol("rollback.available", "after the rollback to version 1 a fresh handle lists %v", av)
	}
	if x := checkVersion(t2, 1, "1"); x != nil {
		return x
	}
	if !c.Skip {
		nf := 0
		for k := range DumpDB(db) {
			if len(k) > 0 && k[0] == 'f' {
				nf++
			}
		}
		if nf != c.Keys {
			return viol("rollback.fast", "after the rollback the persisted index holds %d entries, version 1 has %d pairs", nf, c.Keys)
		}
		g, err := t2.Get(bigKey(c.Keys / 2))
		if err != nil || string(g) != "1" {
			return viol("rollback.fast", "after the rollback Get(%q)=%q,%v want \"1\"", bigKey(c.Keys/2), g, err)
		}
	}
	// the history goes on as if it had ended at version 1
	root = roots[1]
	if x := commit(tr, 2, []byte("again"), 3); x != nil {
		x.Obs += ".after_rollback"
		return x
	}
	return nil
}

func TestC09Big(t *testing.T) {
	rapid.Check(t, func(rt *rapid.T) {
		c := BigRollbackCase{Prop: "C09", Kind: "big_rollback", Keys: rapid.IntRange(11500, 14000).Draw(rt, "keys"), Versions: rapid.IntRange(3, 4).Draw(rt, "versions"),
			Cache: rapid.SampledFrom([]int{0, 1000, 100000}).Draw(rt, "cache"), Skip: rapid.Bool().Draw(rt, "skip"),
			Mode: rapid.SampledFrom([]string{"lvfo", "dvf", "dvf_new_handle", "prune"}).Draw(rt, "mode")}
		if v := runBigRollback(c); v != nil {
			reportViolation(rt, "C09", c, v)
		}
		RecordCase("C09", c, true, map[string]bool{"big_" + c.Mode: true})
		Count("C09", "big_cases_node_entries_erased_or_orphaned", 2*c.Keys*c.Versions)
	})
}

func init() {
	customReplayers["C09"] = func(raw json.RawMessage) (*Violation, bool) {
		var head struct {
			Kind string `json:"kind"`
		}
		_ = json.Unmarshal(raw, &head)
		if head.Kind != "big_rollback" {
			return nil, false
		}
		var c BigRollbackCase
		if err := json.Unmarshal(raw, &c); err != nil {
			return &Violation{Prop: "C09", Obs: "harness", Msg: err.Error()}, true
		}
		return runBigRollback(c), true
	}
}

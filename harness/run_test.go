package harness

import (
	"encoding/json"
	"fmt"
	"os"
	"path/filepath"
	"testing"
	"time"

	"pgregory.net/rapid"
)

func TestMain(m *testing.M) {
	code := m.Run()
	writeStats()
	os.Exit(code)
}

// spec of one World-based property check
type worldSpec struct {
	Prop       string
	Profile    *Profile
	Obs        Observers
	Rule       string
	Nontrivial func(w *World) bool
	// Known returns the id of the open known finding that this violation is an instance of, or "".
	Known func(w *World, v *Violation) string
	// Extra observers after each step
	After func(w *World, op Op) *Violation
	// End-of-case check
	End func(t *rapid.T, w *World) *Violation
}

var worldSpecs = map[string]*worldSpec{}

func outDir() string {
	d := os.Getenv("VERIF_OUT")
	if d == "" {
		d = filepath.Join(verifRoot(), "out")
	}
	_ = os.MkdirAll(d, 0o755)
	return d
}

// writeReplay stores the failing case; rapid re-runs the minimal case last, so the file finally holds
// the shrunk history.
func writeReplay(prop string, h any, v *Violation) string {
	shard := os.Getenv("VERIF_SHARD")
	path := filepath.Join(outDir(), fmt.Sprintf("%s-replay-%s.json", prop, shard))
	b, _ := json.MarshalIndent(map[string]any{"history": h, "violation": v}, "", " ")
	_ = os.WriteFile(path, b, 0o644)
	return path
}

type failer interface {
	Fatalf(format string, args ...any)
}

func reportViolation(t failer, prop string, h any, v *Violation) {
	path := writeReplay(prop, h, v)
	t.Fatalf("VERIF-VIOLATION property=%s replay=%s observer=%s :: %s", prop, path, v.Obs, v.Msg)
}

func drawBackend(t *rapid.T, p *Profile) string {
	if only := os.Getenv("VERIF_BACKEND"); only != "" {
		return only
	}
	bs := p.Backends
	if len(bs) == 0 {
		bs = []string{"mem", "mem", "mem", "trace", "prefix"}
	}
	return rapid.SampledFrom(bs).Draw(t, "backend")
}

func runWorldCase(t *rapid.T, s *worldSpec) {
	p := s.Profile
	backend := drawBackend(t, p)
	cfg := genCfg(t, false)
	if p.FixedSkipFast != nil {
		cfg.SkipFast = *p.FixedSkipFast
	}
	if !p.NoInitVer {
		cfg.InitVer = genInitVer(t)
	}
	w, err := NewWorld(s.Prop, backend, cfg, s.Obs)
	if err != nil {
		t.Fatalf("harness: %v", err)
	}
	defer w.Close()
	w.rememberInitialCfg()
	w.trackIndex(Op{Kind: "reopen"})
	if p.NormalFormOneIn > 0 && rapid.IntRange(1, p.NormalFormOneIn).Draw(t, "normalForm") == 1 {
		w.NormalForm = true
		w.Labels["normal_form_case"] = true
	}
	steps := rapid.IntRange(p.MinSteps, p.MaxSteps).Draw(t, "steps")
	if p.QuietOneIn > 0 && rapid.IntRange(1, p.QuietOneIn).Draw(t, "quiet") == 1 {
		w.Quiet = true
		w.Labels["quiet_case"] = true
	}
	cnt0 := refCnt
	handle := func(v *Violation) bool {
		if v == nil {
			return false
		}
		if s.Known != nil {
			if id := s.Known(w, v); id != "" && Open(id) {
				KnownHit(s.Prop, id)
				return true
			}
		}
		reportViolation(t, s.Prop, w.History(), v)
		return true
	}
	for i := 0; i < steps; i++ {
		op := GenOp(t, w, p)
		if handle(w.Apply(op)) {
			return
		}
		w.trackIndex(op)
		if w.Quiet && i < steps-1 {
			continue
		}
		if handle(w.Observe()) {
			return
		}
		if s.After != nil && handle(s.After(w, op)) {
			return
		}
	}
	if s.End != nil && handle(s.End(t, w)) {
		return
	}
	w.Cnt["rotations"] = refCnt.Rot - cnt0.Rot
	w.Cnt["double_rotations"] = refCnt.DoubleRot - cnt0.DoubleRot
	w.Cnt["removals"] = refCnt.Removals - cnt0.Removals
	for id, n := range w.Excl {
		Count(s.Prop, "excluded_by_"+id, n)
	}
	for c, n := range w.Cnt {
		Count(s.Prop, c, n)
	}
	w.Labels["backend_"+backend] = true
	if len(w.Vers) >= 2 {
		w.Labels["ge2_versions_retained"] = true
	}
	RecordCase(s.Prop, w.History(), s.Nontrivial(w), w.Labels)
}

func runWorldSpec(t *testing.T, s *worldSpec) {
	worldSpecs[s.Prop] = s
	rapid.Check(t, func(rt *rapid.T) { runWorldCase(rt, s) })
}

// ---- replay without rapid

type replayFile struct {
	History   json.RawMessage `json:"history"`
	Violation *Violation      `json:"violation"`
}

// customReplayers: per property; returns (violation, handled). Not handled = a World history.
var customReplayers = map[string]func(raw json.RawMessage) (*Violation, bool){}

// replayOne replays a file; returns the violation (nil = passes now).
func replayOne(path string) (*Violation, error) {
	b, err := os.ReadFile(path)
	if err != nil {
		return nil, err
	}
	var rf replayFile
	if err := json.Unmarshal(b, &rf); err != nil {
		return nil, err
	}
	if len(rf.History) == 0 {
		rf.History = b
	}
	var head struct {
		Prop string `json:"property"`
	}
	if err := json.Unmarshal(rf.History, &head); err != nil {
		return nil, err
	}
	if f, ok := customReplayers[head.Prop]; ok {
		if v, handled := f(rf.History); handled {
			return v, nil
		}
	}
	s, ok := worldSpecs[head.Prop]
	if head.Prop == "C09" {
		s, ok = specC09(), true
	}
	if !ok {
		return nil, fmt.Errorf("no replayer for property %q", head.Prop)
	}
	var h History
	if err := json.Unmarshal(rf.History, &h); err != nil {
		return nil, err
	}
	v, _, err := replayHistory(s, h)
	return v, err
}

// replayHistory runs a recorded World history under the observers of spec s; returns the first violation and the
// id of the open known finding it is an instance of ("" = none).
func replayHistory(s *worldSpec, h History) (v *Violation, known string, err error) {
	if h.Prop == "C09" {
		s = c09Instance(specC09()) // the twin is per-history state
	}
	w, err := NewWorld(h.Prop, h.Backend, h.Cfg, s.Obs)
	if err != nil {
		return nil, "", err
	}
	defer w.Close()
	done := func(v *Violation) (*Violation, string, error) {
		if v != nil && s.Known != nil {
			if id := s.Known(w, v); id != "" && Open(id) {
				return v, id, nil
			}
		}
		return v, "", nil
	}
	w.rememberInitialCfg()
	w.trackIndex(Op{Kind: "reopen"})
	w.Quiet = h.Quiet
	for i, op := range h.Ops {
		if v := w.Apply(op); v != nil {
			return done(v)
		}
		w.trackIndex(op)
		if h.Quiet && i < len(h.Ops)-1 {
			continue
		}
		if v := w.Observe(); v != nil {
			return done(v)
		}
		if s.After != nil {
			if v := s.After(w, op); v != nil {
				return done(v)
			}
		}
	}
	return nil, "", nil
}

// minimizeHistory: delta debugging over the op list of a failing World history (rapid shrinks such histories
// poorly: every step is drawn from a state-dependent generator). A candidate is kept if it still fails at the SAME
// observer and is not an instance of an open known finding. Deterministic; bounded by a time budget.
func minimizeHistory(s *worldSpec, h History, v *Violation, budget time.Duration) (History, *Violation, int) {
	deadline := time.Now().Add(budget)
	tries := 0
	fails := func(ops []Op) *Violation {
		tries++
		c := h
		c.Ops = ops
		cv, known, err := replayHistory(s, c)
		if err != nil || cv == nil || known != "" || cv.Obs != v.Obs {
			return nil
		}
		return cv
	}
	ops := append([]Op{}, h.Ops...)
	best := v
	n := len(ops) / 2
	if n < 1 {
		n = 1
	}
	for len(ops) > 0 && time.Now().Before(deadline) {
		improved := false
		for end := len(ops); end > 0 && time.Now().Before(deadline); {
			start := end - n
			if start < 0 {
				start = 0
			}
			cand := append(append([]Op{}, ops[:start]...), ops[end:]...)
			if cv := fails(cand); cv != nil {
				ops, best, improved = cand, cv, true
			}
			end = start
		}
		if n > 1 {
			n /= 2
		} else if !improved {
			break
		}
	}
	h.Ops = ops
	return h, best, tries
}

// TestMinimize rewrites $VERIF_REPLAY (a World history that fails) with its minimized form.
func TestMinimize(t *testing.T) {
	registerAllSpecs()
	p := os.Getenv("VERIF_REPLAY")
	if p == "" {
		t.Skip("no file")
	}
	b, err := os.ReadFile(p)
	if err != nil {
		t.Fatal(err)
	}
	var rf replayFile
	if err := json.Unmarshal(b, &rf); err != nil || len(rf.History) == 0 {
		t.Skip("not a replay file with a history")
	}
	var head struct {
		Prop string `json:"property"`
		Kind string `json:"kind"`
	}
	_ = json.Unmarshal(rf.History, &head)
	if f, ok := customMinimizers[head.Prop]; ok {
		if c, mv, before, after, tries, handled := f(rf.History, time.Now().Add(40*time.Second)); handled {
			out, _ := json.MarshalIndent(map[string]any{"history": c, "violation": mv, "minimized": map[string]int{"ops_before": before, "ops_after": after, "replays": tries}}, "", " ")
			if err := os.WriteFile(p, out, 0o644); err != nil {
				t.Fatal(err)
			}
			fmt.Printf("MINIMIZED path=%s ops %d -> %d (%d replays)\n", p, before, after, tries)
			return
		}
	}
	s, ok := worldSpecs[head.Prop]
	if head.Prop == "C09" {
		s, ok = specC09(), true
	}
	if !ok || head.Kind != "" {
		t.Skip("not a World history")
	}
	var h History
	if err := json.Unmarshal(rf.History, &h); err != nil || len(h.Ops) == 0 {
		t.Skip("not a World history")
	}
	v, known, err := replayHistory(s, h)
	if err != nil || v == nil || known != "" {
		t.Skipf("does not fail on replay (%v, known=%q)", err, known)
	}
	m, mv, tries := minimizeHistory(s, h, v, 25*time.Second)
	out, _ := json.MarshalIndent(map[string]any{"history": m, "violation": mv, "minimized": map[string]int{"ops_before": len(h.Ops), "ops_after": len(m.Ops), "replays": tries}}, "", " ")
	if err := os.WriteFile(p, out, 0o644); err != nil {
		t.Fatal(err)
	}
	fmt.Printf("MINIMIZED path=%s ops %d -> %d (%d replays)\n", p, len(h.Ops), len(m.Ops), tries)
}

// TestReplay replays $VERIF_REPLAY (one file) or every file listed in $VERIF_REPLAY_LIST (JSON list of
// {path, expect: "pass"|"fail", finding}) and prints one machine-readable line per file.
func TestReplay(t *testing.T) {
	registerAllSpecs()
	if p := os.Getenv("VERIF_REPLAY"); p != "" {
		v, err := replayOne(p)
		if err != nil {
			t.Fatalf("replay %s: %v", p, err)
		}
		if v != nil {
			fmt.Printf("REPLAY-RESULT path=%s result=fail observer=%s :: %s\n", p, v.Obs, v.Msg)
			t.Fatalf("VERIF-VIOLATION property=%s replay=%s observer=%s :: %s", v.Prop, p, v.Obs, v.Msg)
		}
		fmt.Printf("REPLAY-RESULT path=%s result=pass\n", p)
		return
	}
	lst := os.Getenv("VERIF_REPLAY_LIST")
	if lst == "" {
		t.Skip("no replay requested")
	}
	var paths []string
	if err := json.Unmarshal([]byte(lst), &paths); err != nil {
		t.Fatalf("VERIF_REPLAY_LIST: %v", err)
	}
	for _, p := range paths {
		v, err := replayOne(p)
		switch {
		case err != nil:
			fmt.Printf("REPLAY-RESULT path=%s result=error :: %v\n", p, err)
		case v != nil:
			fmt.Printf("REPLAY-RESULT path=%s result=fail observer=%s :: %s\n", p, v.Obs, v.Msg)
		default:
			fmt.Printf("REPLAY-RESULT path=%s result=pass\n", p)
		}
	}
}

package harness

// World = one real tree handle + the reference model + configuration + op log. Every op is applied to
// both, return values are compared at once, and the enabled observers run after every step. The op
// log is a plain JSON history; Replay() re-executes such a file without rapid.

import (
	"bytes"
	"encoding/json"
	"errors"
	"fmt"
	ics23 "github.com/cosmos/ics23/go"
	"os"
	"sort"

	corestore "cosmossdk.io/core/store"
	"github.com/cosmos/iavl"
	dbm "github.com/cosmos/iavl/db"
)

type Cfg struct {
	Cache    int    `json:"cache"`
	SkipFast bool   `json:"skip_fast"`
	Flush    int    `json:"flush"`
	Sync     bool   `json:"sync,omitempty"`
	InitVer  uint64 `json:"init_ver,omitempty"`
	// InitMethod: the initial version is configured through MutableTree.SetInitialVersion instead of the option
	InitMethod bool `json:"init_method,omitempty"`
}

type Op struct {
	Kind     string `json:"op"`
	K        []byte `json:"k,omitempty"`
	V        []byte `json:"v,omitempty"`
	N        int64  `json:"n,omitempty"`
	Cfg      *Cfg   `json:"cfg,omitempty"`
	Read     string `json:"read,omitempty"`
	Flag     bool   `json:"flag,omitempty"` // reopen: Close() the old handle first; hop: compressed; dvf: fresh handle
	Start    []byte `json:"start,omitempty"`
	End      []byte `json:"end,omitempty"`
	StartNil bool   `json:"start_nil,omitempty"`
	EndNil   bool   `json:"end_nil,omitempty"`
}

func (o Op) String() string {
	b, _ := json.Marshal(o)
	return string(b)
}

type VerState struct {
	Root    *RNode
	KV      map[string][]byte
	Touched map[string]bool // keys written (Set) or removed in this version, from the op log (C15)
	Normal  bool            // the version's writes were in normal form (sorted, one op per key)
	Writes  []Op            // the effective writes of this version in order (replayed by the op "replay")
	Logged  bool            // Writes is the complete log (false for legacy / imported versions)
}

type Violation struct {
	Prop string `json:"property"`
	Obs  string `json:"observer"`
	Msg  string `json:"msg"`
}

func (v *Violation) Error() string { return fmt.Sprintf("[%s] %s: %s", v.Prop, v.Obs, v.Msg) }

type Observers struct {
	Reads    bool // C01: every read of the working state and of every retained version
	Hash     bool // C02: working hash + hash of every retained version vs reference
	Versions bool // C14: version queries for all v in [0, latest+1]
	Audit    bool // C12: raw reachability audit
	Fields   bool // C13a: field-by-field comparison in the audit
	Fast     bool // C07: fast vs walk read paths + raw f entries
	Proofs   bool // C03
	Fresh    bool // re-check through a fresh handle on the same DB after prune/lvfo (C04, C14)
	// NoStepWorkingHash: do not query WorkingHash after every step (it memoises node hashes and would hide
	// a later read that memoises a wrong one); the working hash is then observed only by drawn read steps
	// and by SaveVersion.
	NoStepWorkingHash bool
	Light             bool // cheap per-step subset (hash + working reads) for profiles that run a heavier check elsewhere
	Hybrid            bool // C16/C13: independent reader of a legacy + new-format (hybrid) store vs the reference trees
}

type World struct {
	Erased, Recommitted map[int64]bool // version numbers erased by a rollback / committed again since
	LastVReadOp         Op
	kbuf []byte // see rk
	LastVRead int64 // version of the last vread step
	Quiet         bool // see History.Quiet
	LiveInitAbove bool // SetInitialVersion(v > first stored version) was called on the live handle
	WBaseLogged   bool // the working tree was started from a retained version by setWorkingFrom (its op log is complete)
	Prop          string
	Backend       string // mem | trace | prefix | level
	Dir           string
	Parent        corestore.KVStoreWithBatch // harness-owned DB object
	DB            corestore.KVStoreWithBatch // what the tree is given (== Parent unless prefix)
	Trace         *TraceDB
	Cfg           Cfg
	Tree          *iavl.MutableTree
	Obs           Observers

	Vers   map[int64]*VerState
	First  int64
	Latest int64
	// LegacyLatest: highest version stored in the legacy (pre-1.0) format, 0 = none (C16). DeleteVersionsTo below it is
	// a no-op by design ("it will delete the legacy versions at once"), at or above it deletes all of them.
	LegacyLatest int64
	LegacyOrig   int64            // latest legacy version when the store was opened (node versions <= it are legacy nodes)
	Reformatted  map[int64]*RNode // legacy node version -> the legacy node that a reference-root commit re-formatted at (version,0)
	F29Exposed   bool
	Base         int64 // first version number ever committed on this store (0 = none yet)
	Cur          int64 // version the working tree is based on
	WRoot        *RNode
	WKV          map[string][]byte
	WTouched     map[string]bool
	WOps         []Op // writes since last commit (for normal-form detection)
	InitPending  bool
	EverFast     bool // a handle with the fast index enabled has ever loaded this DB
	Dirty        bool // working tree has uncommitted changes

	icfg       Cfg
	icfgSet    bool
	Pins       map[int64][]*iavl.Exporter // open exporters per version (C04/C06: pinned versions cannot be deleted)
	Held       map[int64]*heldTree        // ImmutableTree handles obtained earlier and kept across later steps
	NormalForm bool                       // generate every version's writes in normal form (C15)
	// F1Exposed: a hash-memoising read ran on the working tree while a non-default initial version was pending
	F1Exposed bool
	// F3Exposed: a rollback of versions was carried out with the index disabled while a label exists
	F3Exposed bool
	// IndexLabel models the version named by the persisted fast-index label (0 = never built)
	IndexLabel int64

	Log    []Op
	Labels map[string]bool
	Excl   map[string]int // generator-side exclusions keyed by finding id
	Cnt    map[string]int
}

type History struct {
	Prop    string `json:"property"`
	Backend string `json:"backend"`
	Cfg     Cfg    `json:"cfg"`
	Ops     []Op   `json:"ops"`
	Extra   any    `json:"extra,omitempty"`
	// Quiet: the observers did not run after every step but only after the last one (their own calls - GetImmutable of
	// every version, ... - would otherwise refresh exactly the caches a defect may leave stale); the checked steps are
	// the drawn "vread" steps
	Quiet bool `json:"quiet,omitempty"`
}

// the namespace prefix is handed to NewPrefixDB as a slice with spare capacity (as one built by append would be): the
// view must not write into the caller's backing array
var prefixBytes = withSpare([]byte{'p', 0xff, 0xff}, 16)

func withSpare(b []byte, n int) []byte {
	out := make([]byte, len(b), len(b)+n)
	copy(out, b)
	return out
}

func NewWorld(prop, backend string, cfg Cfg, obs Observers) (*World, error) {
	w := &World{Prop: prop, Backend: backend, Cfg: cfg, Obs: obs, Vers: map[int64]*VerState{}, WKV: map[string][]byte{},
		WTouched: map[string]bool{}, Labels: map[string]bool{}, Excl: map[string]int{}, Cnt: map[string]int{}}
	switch backend {
	case "mem":
		w.Parent = dbm.NewMemDB()
		w.DB = w.Parent
	case "trace":
		w.Trace = NewTraceDB()
		w.Trace.NoJournal = true
		w.Parent = w.Trace
		w.DB = w.Parent
	case "prefix":
		p := dbm.NewMemDB()
		// keys outside the namespace that must never be seen or touched
		for _, k := range outsideKeys(prefixBytes) {
			_ = p.Set(k, []byte("outside"))
		}
		w.Parent = p
		w.DB = dbm.NewPrefixDB(p, prefixBytes)
	case "level":
		base := os.Getenv("VERIF_TMP")
		if base == "" {
			base = "/dev/shm"
			if _, err := os.Stat(base); err != nil {
				base = os.TempDir()
			}
		}
		d, err := os.MkdirTemp(base, "verif-ldb-")
		if err != nil {
			return nil, err
		}
		w.Dir = d
		ldb, err := dbm.NewGoLevelDB("t", d)
		if err != nil {
			return nil, err
		}
		w.Parent = ldb
		w.DB = ldb
	default:
		return nil, fmt.Errorf("unknown backend %q", backend)
	}
	w.InitPending = cfg.InitVer > 0
	w.WBaseLogged = true // (the first working tree starts from the empty store: its write log is complete, too)
	w.newTree()
	if _, err := w.Tree.Load(); err != nil {
		return nil, fmt.Errorf("initial Load: %w", err)
	}
	if !cfg.SkipFast {
		w.EverFast = true
	}
	return w, nil
}

func outsideKeys(prefix []byte) [][]byte {
	out := [][]byte{append([]byte{}, prefix...), prefix[:len(prefix)-1], {0xff}, {0xff, 0xff, 0xff}, {'p'}, {'q'}}
	if inc := incr(prefix); inc != nil {
		out = append(out, inc, append(append([]byte{}, inc...), 's'))
	}
	return out
}

func incr(b []byte) []byte {
	c := append([]byte{}, b...)
	for i := len(c) - 1; i >= 0; i-- {
		if c[i] < 0xff {
			c[i]++
			return c[:i+1]
		}
	}
	return nil
}

func (w *World) Close() {
	w.unpinAll()
	if w.Tree != nil {
		_ = w.Tree.Close()
		w.Tree = nil
	}
	if w.Backend == "level" {
		if c, ok := w.Parent.(*dbm.GoLevelDB); ok {
			_ = c.Close()
		}
		if w.Dir != "" {
			_ = os.RemoveAll(w.Dir)
		}
	}
}

func (w *World) newTree() {
	opts := []iavl.Option{iavl.FlushThresholdOption(w.Cfg.Flush), iavl.SyncOption(w.Cfg.Sync)}
	if w.Cfg.InitVer > 0 && !w.Cfg.InitMethod {
		opts = append(opts, iavl.InitialVersionOption(w.Cfg.InitVer))
	}
	w.Tree = iavl.NewMutableTree(w.DB, w.Cfg.Cache, w.Cfg.SkipFast, iavl.NewNopLogger(), opts...)
	if w.Cfg.InitVer > 0 && w.Cfg.InitMethod {
		w.Tree.SetInitialVersion(w.Cfg.InitVer)
	}
	// handles handed out by the replaced tree object belong to its (now stale) node database: one writer object per
	// store is the supported use, so they are not followed any further
	w.Held = nil
	w.LiveInitAbove = false
}

func (w *World) WorkingVersion() int64 {
	if w.Cur == 0 && w.Cfg.InitVer > 0 && w.InitPending {
		return int64(w.Cfg.InitVer)
	}
	return w.Cur + 1
}

func (w *World) viol(obs, format string, a ...any) *Violation {
	return &Violation{Prop: w.Prop, Obs: obs, Msg: fmt.Sprintf(format, a...)}
}

func (w *World) History() History {
	return History{Prop: w.Prop, Backend: w.Backend, Cfg: w.firstCfg(), Ops: w.Log, Quiet: w.Quiet}
}

func (w *World) firstCfg() Cfg {
	if c, ok := w.initialCfg(); ok {
		return c
	}
	return w.Cfg
}

func (w *World) initialCfg() (Cfg, bool) { return w.icfg, w.icfgSet }

// (fields kept separately to keep the struct literal above short)
func (w *World) rememberInitialCfg() { w.icfg, w.icfgSet = w.Cfg, true }

func (w *World) setWorkingFrom(v int64) {
	if vs, ok := w.Vers[v]; ok {
		w.WRoot, w.WKV = vs.Root, copyKV(vs.KV)
	} else {
		w.WRoot, w.WKV = nil, map[string][]byte{}
	}
	w.WTouched = map[string]bool{}
	w.WOps = nil
	w.Dirty = false
	w.WBaseLogged = true
}

func (w *World) rawDump() map[string][]byte { return DumpDB(w.DB) }

func (w *World) markErased(v int64) {
	if w.Erased == nil {
		w.Erased = map[int64]bool{}
	}
	w.Erased[v] = true
	delete(w.Recommitted, v)
}

// rk hands the key to a read call through ONE buffer that is overwritten for every call (a caller is free to reuse its
// key buffer between reads): nothing the library keeps from a read may alias the caller's memory.
func (w *World) rk(k []byte) []byte {
	w.kbuf = append(w.kbuf[:0], k...)
	return w.kbuf
}

// Apply executes op on the real tree and the model and compares the immediate results.
func (w *World) Apply(op Op) (v *Violation) {
	if !w.icfgSet {
		w.rememberInitialCfg()
	}
	switch op.Kind {
	case "set", "remove", "setnil", "read":
		if op.K == nil {
			op.K = []byte{} // JSON omits the empty key; the generators only produce non-nil keys
		}
	}
	w.Log = append(w.Log, op)
	defer func() {
		if r := recover(); r != nil {
			v = w.viol("panic."+op.Kind, "panic in %s: %v", op, r)
		}
	}()
	t := w.Tree
	switch op.Kind {
	case "reopen", "lvfo", "dvf", "hop", "lvfo_invalid":
		held := w.Held
		w.unpinAll()
		if op.Kind != "reopen" && op.Kind != "hop" {
			w.Held = held // a rollback deletes the versions above its target and nothing else: older handles stay valid
		}
	}
	switch op.Kind {
	case "set":
		if op.V == nil {
			op.V = []byte{} // JSON omits empty values; a nil value is the separate op "setnil"
		}
		_, had := w.WKV[string(op.K)]
		upd, err := t.Set(cp(op.K), cp(op.V)) // the tree gets its own slices: the model never shares memory with it
		if err != nil || upd != had {
			return w.viol("set.result", "Set(%q,%q)=%v,%v want updated=%v", op.K, op.V, upd, err, had)
		}
		w.WRoot, _ = rset(w.WRoot, op.K, op.V)
		w.WKV[string(op.K)] = op.V
		w.WTouched[string(op.K)] = true
		w.WOps = append(w.WOps, op)
		w.Dirty = true
	case "setnil":
		before := t.WorkingHash()
		_, err := t.Set(op.K, nil)
		if err == nil {
			return w.viol("setnil.accepted", "Set(%q,nil) returned no error", op.K)
		}
		if after := t.WorkingHash(); !bytes.Equal(before, after) {
			return w.viol("setnil.effect", "Set(%q,nil) changed the working hash", op.K)
		}
	case "remove":
		old, had := w.WKV[string(op.K)]
		val, rm, err := t.Remove(cp(op.K))
		if err != nil || rm != had || !bytes.Equal(val, old) || (had && val == nil) {
			return w.viol("remove.result", "Remove(%q)=%q,%v,%v want %q,%v", op.K, val, rm, err, old, had)
		}
		if had {
			w.WRoot, _, _, _ = rremove(w.WRoot, op.K)
			delete(w.WKV, string(op.K))
			w.Labels["removal"] = true
			w.Dirty = true
		}
		if had {
			w.WOps = append(w.WOps, op)
		}
	case "save":
		return w.applySave(op)
	case "replay":
		// a restarted node replays the block it already has: the recorded writes of the next existing version on
		// top of the loaded older version, then the commit (idempotent branch of SaveVersion)
		vs := w.Vers[w.WorkingVersion()]
		if vs == nil || !vs.Logged || w.Dirty {
			return w.viol("harness", "replay not applicable at working version %d", w.WorkingVersion())
		}
		for _, wr := range vs.Writes {
			n := len(w.Log)
			x := w.Apply(wr)
			w.Log = w.Log[:n] // the history records the one step "replay"
			if x != nil {
				return x
			}
		}
		w.Labels["replay_existing_version"] = true
		if len(vs.Writes) > 0 {
			w.Labels["replay_with_writes"] = true
		}
		return w.applySave(Op{Kind: "save"})
	case "rollback":
		t.Rollback()
		w.setWorkingFrom(w.Cur)
		w.Labels["rollback"] = true
	case "reopen":
		return w.applyReopen(op)
	case "prune":
		return w.applyPrune(op)
	case "lvfo":
		n := op.N
		if n < w.Latest && w.Cfg.SkipFast && w.EverFast {
			w.F3Exposed = true
		}
		if err := t.LoadVersionForOverwriting(n); err != nil {
			return w.viol("lvfo.err", "LoadVersionForOverwriting(%d): %v", n, err)
		}
		if n < w.Latest {
			w.Labels["rollback_versions"] = true
		}
		for v := n + 1; v <= w.Latest; v++ {
			delete(w.Vers, v)
			w.markErased(v)
		}
		w.Latest = n
		w.Cur = n
		if w.LegacyLatest > n {
			w.LegacyLatest = n
			w.Labels["rollback_into_legacy"] = true
		}
		w.setWorkingFrom(n)
		w.Labels["lvfo"] = true
		if w.Obs.Fresh {
			return w.checkFresh("lvfo")
		}
	case "lvfo_invalid":
		// a target outside the retained range: must fail, change nothing and leave the tree usable
		before := w.rawDump()
		if err := t.LoadVersionForOverwriting(op.N); err == nil {
			return w.viol("lvfo.invalid_accepted", "LoadVersionForOverwriting(%d) succeeded, retained %v", op.N, w.Retained())
		}
		if !eqDump(before, w.rawDump()) {
			return w.viol("lvfo.invalid_effect", "failed LoadVersionForOverwriting(%d) changed the store (retained %v)", op.N, w.Retained())
		}
		w.Labels["lvfo_invalid"] = true
		if w.Obs.Fresh {
			return w.checkFresh("lvfo_invalid")
		}
	case "dvf":
		n := op.N
		if n < w.Latest && w.Cfg.SkipFast && w.EverFast {
			w.F3Exposed = true
		}
		if op.Read == "cold" {
			// the rollback is the very first call on a brand-new handle (nothing loaded, nothing discovered yet)
			_ = w.Tree.Close()
			w.reopenBackend()
			w.newTree()
			t = w.Tree
			w.Labels["dvf_first_call_on_a_new_handle"] = true
		}
		if err := t.DeleteVersionsFrom(n + 1); err != nil {
			return w.viol("dvf.err", "DeleteVersionsFrom(%d): %v", n+1, err)
		}
		if n < w.Latest {
			w.Labels["rollback_versions"] = true
		}
		oldLatest := w.Latest
		for v := n + 1; v <= w.Latest; v++ {
			delete(w.Vers, v)
			w.markErased(v)
		}
		w.Latest = n
		if w.LegacyLatest > n {
			w.LegacyLatest = n
			w.Labels["rollback_into_legacy"] = true
		}
		if w.Obs.Versions || w.Obs.Reads {
			// before the reload: the version range API must already agree with the new range
			for v := n + 1; v <= oldLatest; v++ {
				if t.VersionExists(v) {
					return w.viol("dvf.versionexists", "after DeleteVersionsFrom(%d) VersionExists(%d) is still true", n+1, v)
				}
			}
			var want []int
			for _, v := range w.Retained() {
				want = append(want, int(v))
			}
			if av := t.AvailableVersions(); fmt.Sprint(av) != fmt.Sprint(want) && !(len(av) == 0 && len(want) == 0) {
				return w.viol("dvf.available", "after DeleteVersionsFrom(%d) AvailableVersions=%v want %v", n+1, av, want)
			}
		}
		if op.Flag {
			_ = w.Tree.Close()
			w.reopenBackend()
			w.newTree()
		}
		lv, err := w.Tree.LoadVersion(n)
		if err != nil || lv != n {
			return w.viol("dvf.load", "LoadVersion(%d) after DeleteVersionsFrom = %d,%v", n, lv, err)
		}
		if !w.Cfg.SkipFast {
			w.EverFast = true
		}
		w.Cur = n
		w.setWorkingFrom(n)
		w.Labels["dvf"] = true
	case "pin":
		var ex *iavl.Exporter
		if op.Flag && len(w.WOps) == 0 && w.Cur == op.N && w.Vers[op.N] != nil {
			// the export is started on the MutableTree handle itself while it has no uncommitted changes (its tree IS version
			// N); the first node is fetched at once, so that the traversal has started before the writer goes on
			e, err := t.Export()
			if err != nil {
				return w.viol("pin.export", "Export on the handle that sits on version %d without uncommitted changes: %v", op.N, err)
			}
			_, _ = e.Next()
			ex = e
			w.Labels["pin_through_the_writer_handle"] = true
		} else {
			it, err := t.GetImmutable(op.N)
			if err != nil {
				return w.viol("pin.getimmutable", "GetImmutable(%d): %v", op.N, err)
			}
			e, err := it.Export()
			if err != nil {
				return w.viol("pin.export", "Export of version %d: %v", op.N, err)
			}
			ex = e
		}
		if w.Pins == nil {
			w.Pins = map[int64][]*iavl.Exporter{}
		}
		w.Pins[op.N] = append(w.Pins[op.N], ex)
		w.Labels["pin"] = true
	case "setinit":
		// SetInitialVersion on the live handle at an arbitrary moment: "only used during the initial SaveVersion() call
		// for a tree with no other versions, and otherwise ignored"
		t.SetInitialVersion(uint64(op.N))
		if w.Latest == 0 && len(w.Vers) == 0 {
			w.Cfg.InitVer, w.Cfg.InitMethod = uint64(op.N), true
			w.InitPending = true
		} else {
			w.Labels["setinit_on_nonempty_store_ignored"] = true
			if op.N > w.First {
				w.LiveInitAbove = true // LoadVersion on this handle is documented to fail from now on
			}
		}
	case "reload":
		// LoadVersion on the LIVE handle (same tree object, same node cache): the working tree is replaced by the
		// target version, uncommitted changes are dropped
		lv, err := t.LoadVersion(op.N)
		if err != nil || lv != w.Latest {
			return w.viol("reload.err", "LoadVersion(%d) on the live handle = %d,%v want %d,nil (retained %v)", op.N, lv, err, w.Latest, w.Retained())
		}
		target := op.N
		if target == 0 {
			target = w.Latest
		}
		if target != w.Latest {
			w.Labels["reopen_old"] = true
		}
		w.Labels["reload_live_handle"] = true
		w.Cur = target
		w.setWorkingFrom(target)
		if !w.Cfg.SkipFast {
			w.EverFast = true
		}
	case "reload_invalid":
		// a target outside the retained range: must fail and leave the tree (incl. its uncommitted changes) as it was
		if _, err := t.LoadVersion(op.N); err == nil {
			return w.viol("reload.invalid_accepted", "LoadVersion(%d) on the live handle succeeded, retained %v", op.N, w.Retained())
		}
		w.Labels["reload_invalid"] = true
	case "hold":
		it, err := t.GetImmutable(op.N)
		if err != nil {
			return w.viol("hold.getimmutable", "GetImmutable(%d): %v", op.N, err)
		}
		if w.Held == nil {
			w.Held = map[int64]*heldTree{}
		}
		w.Held[op.N] = &heldTree{it: it, vs: w.Vers[op.N]}
		w.Labels["hold"] = true
	case "unpin":
		if exs := w.Pins[op.N]; len(exs) > 0 {
			exs[len(exs)-1].Close()
			exs[len(exs)-1].Close() // safe to call multiple times by contract
			w.Pins[op.N] = exs[:len(exs)-1]
			if len(w.Pins[op.N]) == 0 {
				delete(w.Pins, op.N)
			}
		}
	case "read":
		return w.applyRead(op)
	case "vread":
		return w.applyVRead(op)
	case "iter":
		return w.applyIter(op)
	case "hop":
		return w.applyHop(op)
	default:
		return w.viol("harness", "unknown op %q", op.Kind)
	}
	return nil
}

func isNormalForm(ops []Op) bool {
	var prev []byte
	for i, o := range ops {
		if i > 0 && bytes.Compare(prev, o.K) >= 0 {
			return false
		}
		prev = o.K
	}
	return true
}

func (w *World) applySave(op Op) *Violation {
	t := w.Tree
	wv := w.WorkingVersion()
	wantHash := rhash(w.WRoot, wv, false)
	var before map[string][]byte
	ex, overwrite := w.Vers[wv]
	if overwrite && w.Obs.Versions {
		before = w.rawDump()
	}
	h, v, err := t.SaveVersion()
	w.InitPending = false
	if overwrite {
		w.Labels["recommit_existing"] = true
		same := bytes.Equal(rhash(ex.Root, 0, false), wantHash)
		if same {
			if err != nil {
				return w.viol("save.idempotent", "SaveVersion(%d) with identical hash failed: %v", wv, err)
			}
			if v != wv || !bytes.Equal(h, wantHash) {
				return w.viol("save.idempotent", "SaveVersion(%d) idempotent returned %d,%x want %x", wv, v, h, wantHash)
			}
			w.Cur = wv
			w.setWorkingFrom(wv)
		} else if err == nil {
			return w.viol("save.overwrite", "SaveVersion(%d) over a different root hash succeeded", wv)
		}
		if before != nil {
			if after := w.rawDump(); !eqDump(before, after) {
				return w.viol("save.overwrite_effect", "re-commit of existing version %d changed the store", wv)
			}
		}
		return nil
	}
	if err != nil {
		return w.viol("save.err", "SaveVersion: %v", err)
	}
	if v != wv {
		return w.viol("save.version", "SaveVersion returned version %d want %d", v, wv)
	}
	if !bytes.Equal(h, wantHash) {
		return w.viol("save.hash", "SaveVersion(%d) hash %x want %x", wv, h, wantHash)
	}
	noop := !hasUnstamped(w.WRoot) && w.WRoot != nil
	if noop && w.WRoot.Version <= w.LegacyOrig {
		// the root is a legacy node: the commit re-formats it under (node version, 0)
		if w.Reformatted == nil {
			w.Reformatted = map[int64]*RNode{}
		}
		if prev, ok := w.Reformatted[w.WRoot.Version]; ok && prev != w.WRoot {
			w.F29Exposed = true
		}
		w.Reformatted[w.WRoot.Version] = w.WRoot
		w.Labels["commit_on_legacy_root"] = true
	}
	if noop {
		w.Labels["noop_commit"] = true
	}
	if w.WRoot == nil {
		w.Labels["empty_version"] = true
	} else if w.WRoot.leaf() {
		w.Labels["leaf_root_version"] = true
	}
	rhash(w.WRoot, wv, true)
	if w.Erased[wv] {
		delete(w.Erased, wv)
		if w.Recommitted == nil {
			w.Recommitted = map[int64]bool{}
		}
		w.Recommitted[wv] = true // this version NUMBER now names other contents than it did before the rollback
	}
	w.Vers[wv] = &VerState{Root: w.WRoot, KV: copyKV(w.WKV), Touched: w.WTouched, Normal: isNormalForm(w.WOps), Writes: append([]Op{}, w.WOps...), Logged: w.WBaseLogged}
	if w.First == 0 || len(w.Vers) == 1 {
		w.First = wv
	}
	if w.Base == 0 {
		w.Base = wv
	}
	w.Latest = wv
	w.Cur = wv
	w.WTouched = map[string]bool{}
	w.WOps = nil
	w.Dirty = false
	w.Cnt["commits"]++
	if !noop {
		w.Cnt["writing_commits"]++
	}
	return nil
}

func (w *World) reopenBackend() {
	if w.Backend == "level" {
		if c, ok := w.Parent.(*dbm.GoLevelDB); ok {
			_ = c.Close()
		}
		ldb, err := dbm.NewGoLevelDB("t", w.Dir)
		if err != nil {
			panic(fmt.Sprintf("reopen leveldb: %v", err))
		}
		w.Parent, w.DB = ldb, ldb
	}
}

func (w *World) applyReopen(op Op) *Violation {
	if op.Flag || w.Backend == "level" {
		_ = w.Tree.Close()
	}
	old := w.Cfg
	if op.Cfg != nil {
		w.Cfg = *op.Cfg
	}
	w.reopenBackend()
	w.newTree()
	target := op.N
	v, err := w.Tree.LoadVersion(target)
	if err != nil {
		return w.viol("reopen.err", "LoadVersion(%d) on fresh handle (cfg %+v): %v", target, w.Cfg, err)
	}
	if v != w.Latest {
		return w.viol("reopen.latest", "LoadVersion(%d) returned %d want latest %d", target, v, w.Latest)
	}
	if target == 0 {
		target = w.Latest
	}
	if target != w.Latest {
		w.Labels["reopen_old"] = true
	}
	if old.SkipFast != w.Cfg.SkipFast {
		w.Labels["fast_toggle"] = true
	}
	if !w.Cfg.SkipFast {
		w.EverFast = true
	}
	w.Labels["reopen"] = true
	w.Cur = target
	w.setWorkingFrom(target)
	w.InitPending = w.Latest == 0 && w.Cfg.InitVer > 0
	return nil
}

type heldTree struct {
	it *iavl.ImmutableTree
	vs *VerState
}

// checkHeld: a committed version handed out earlier keeps answering with exactly its contents while the writer goes
// on (writes, commits, removals, deletion of OTHER versions). Handles of versions that were deleted or replaced since
// are dropped, not checked.
func (w *World) checkHeld() *Violation {
	vers := make([]int64, 0, len(w.Held))
	for v := range w.Held {
		vers = append(vers, v)
	}
	sort.Slice(vers, func(i, j int) bool { return vers[i] < vers[j] })
	for _, v := range vers {
		h := w.Held[v]
		if w.Vers[v] != h.vs {
			delete(w.Held, v)
			continue
		}
		it, vs := h.it, h.vs
		kvs := sortedKVs(vs.KV)
		if it.Size() != int64(len(kvs)) || it.Version() != v {
			return w.viol("held.size", "held handle of version %d: Size=%d Version=%d want %d", v, it.Size(), it.Version(), len(kvs))
		}
		if hh := it.Hash(); !bytes.Equal(hh, rhash(vs.Root, 0, false)) {
			return w.viol("held.hash", "held handle of version %d: Hash %x want %x", v, hh, rhash(vs.Root, 0, false))
		}
		for i, kv := range kvs {
			g, err := it.Get(kv.K)
			if err != nil || g == nil || !bytes.Equal(g, kv.V) {
				return w.viol("held.get", "held handle of version %d (latest %d): Get(%q)=%q,nil=%v,%v want %q", v, w.Latest, kv.K, g, g == nil, err, kv.V)
			}
			if has, err := it.Has(kv.K); err != nil || !has {
				return w.viol("held.has", "held handle of version %d: Has(%q)=%v,%v", v, kv.K, has, err)
			}
			idx, val, err := it.GetWithIndex(kv.K)
			if err != nil || idx != int64(i) || !bytes.Equal(val, kv.V) {
				return w.viol("held.getwithindex", "held handle of version %d: GetWithIndex(%q)=%d,%q,%v want %d,%q", v, kv.K, idx, val, err, i, kv.V)
			}
		}
		_, absent := probeKeys(vs.KV)
		for k := range w.WKV { // keys written after the version was committed
			if _, ok := vs.KV[k]; !ok {
				absent = append(absent, k)
			}
		}
		sort.Strings(absent)
		for _, k := range absent {
			g, err := it.Get([]byte(k))
			if err != nil || g != nil {
				return w.viol("held.get_absent", "held handle of version %d (latest %d): Get(absent %q)=%q,%v", v, w.Latest, k, g, err)
			}
			if has, err := it.Has([]byte(k)); err != nil || has {
				return w.viol("held.has_absent", "held handle of version %d: Has(absent %q)=%v,%v", v, k, has, err)
			}
		}
		var got []KV
		ii, err := it.Iterator(nil, nil, true)
		if err != nil {
			return w.viol("held.iterator", "held handle of version %d: Iterator: %v", v, err)
		}
		got, err = drain(ii)
		if err != nil || !eqKVs(got, kvs) {
			return w.viol("held.iterator", "held handle of version %d: Iterator=%s,%v want %s", v, fmtKVs(got), err, fmtKVs(kvs))
		}
		w.Cnt["held_handle_checks"]++
		if v < w.Latest {
			w.Labels["held_handle_of_older_version_checked"] = true
		}
	}
	return nil
}

func (w *World) unpinAll() {
	w.Held = nil
	for v, exs := range w.Pins {
		for _, ex := range exs {
			ex.Close()
		}
		delete(w.Pins, v)
	}
}

func (w *World) pinnedIn(lo, hi int64) bool {
	for v := range w.Pins {
		if v >= lo && v <= hi {
			return true
		}
	}
	return false
}

func (w *World) applyPrune(op Op) *Violation {
	n := op.N
	belowLegacyBoundary := w.LegacyLatest > 0 && n < w.LegacyLatest // such a request deletes nothing (and is not refused either)
	if n < w.Latest && w.pinnedIn(w.First, n) && !belowLegacyBoundary {
		// a version held by an open export: the request must be rejected (sync pruning) and have no effect
		before := w.rawDump()
		err := w.Tree.DeleteVersionsTo(n)
		if err == nil {
			return w.viol("prune.pinned", "DeleteVersionsTo(%d) succeeded although a version in %d..%d is held by an open export", n, w.First, n)
		}
		if !eqDump(before, w.rawDump()) {
			return w.viol("prune.pinned_effect", "rejected DeleteVersionsTo(%d) (open export) changed the store", n)
		}
		// nothing may have happened in memory either: the versions stay available (observers check the range)
		// and a commit of pending batch content must not carry out any part of the deletion
		w.Labels["prune_refused_pinned"] = true
		if w.Obs.Fresh {
			return w.checkFresh("prune_pinned")
		}
		return nil
	}
	if n >= w.Latest {
		before := w.rawDump()
		err := w.Tree.DeleteVersionsTo(n)
		if err == nil {
			return w.viol("prune.refuse", "DeleteVersionsTo(%d) with latest=%d returned no error", n, w.Latest)
		}
		if !eqDump(before, w.rawDump()) {
			return w.viol("prune.refuse_effect", "refused DeleteVersionsTo(%d) changed the store", n)
		}
		w.Labels["prune_refused"] = true
		return nil
	}
	var j0 int
	if w.Trace != nil {
		j0 = w.Trace.KindCount("BatchWrite")
	}
	if err := w.Tree.DeleteVersionsTo(n); err != nil {
		return w.viol("prune.err", "DeleteVersionsTo(%d) (first=%d latest=%d): %v", n, w.First, w.Latest, err)
	}
	if w.Trace != nil && w.Trace.KindCount("BatchWrite")-j0 >= 2 {
		w.Labels["prune_split"] = true
	}
	if w.LegacyLatest > 0 && n < w.LegacyLatest {
		// below the legacy/new boundary: nothing is deleted
		w.Labels["prune_below_legacy_boundary"] = true
		if w.Obs.Fresh {
			return w.checkFresh("prune")
		}
		return nil
	}
	if w.LegacyLatest > 0 {
		w.Labels["prune_across_legacy_boundary"] = true
		w.LegacyLatest = 0
	}
	if n >= w.First {
		w.Labels["prune"] = true
		for v := w.First; v <= n; v++ {
			vs := w.Vers[v]
			nx := w.Vers[v+1]
			if vs != nil && nx != nil {
				if vs.Root == nx.Root || vs.Root == nil || vs.Root.leaf() {
					w.Labels["prune_special"] = true
				}
			}
			delete(w.Vers, v)
		}
		w.First = n + 1
		w.Cnt["prunes"]++
	}
	if w.Obs.Fresh {
		return w.checkFresh("prune")
	}
	return nil
}

// applyVRead: one checked read of one retained version (op.N), as a client would issue it out of the blue.
func (w *World) applyVRead(op Op) *Violation {
	vs, ok := w.Vers[op.N]
	if !ok {
		return nil // (the version was deleted by a step that was removed during minimization)
	}
	t := w.Tree
	want, present := vs.KV[string(op.K)]
	w.Labels["vread"] = true
	w.Cnt["vread_steps"]++
	w.LastVRead = op.N
	w.LastVReadOp = op
	delete(w.Recommitted, op.N)
	switch op.Read {
	case "versioned":
		g, err := t.GetVersioned(op.K, op.N)
		if err != nil || !bytes.Equal(g, want) || (g == nil) == present {
			return w.viol("vread.getversioned", "GetVersioned(%q,%d)=%q,nil=%v,%v want %q present=%v", op.K, op.N, g, g == nil, err, want, present)
		}
		return nil
	case "proof":
		if vs.Root == nil || len(op.K) == 0 {
			return nil
		}
		p, err := t.GetVersionedProof(op.K, op.N)
		if err != nil || p == nil {
			return w.viol("vread.proof", "GetVersionedProof(%q,%d): %v", op.K, op.N, err)
		}
		root := rhash(vs.Root, 0, false)
		if present {
			if p.GetExist() == nil {
				return w.viol("vread.proof", "GetVersionedProof(present %q,%d) is not a membership proof", op.K, op.N)
			}
			if len(want) > 0 && !ics23.VerifyMembership(ics23.IavlSpec, root, p, op.K, want) {
				return w.viol("vread.proof", "GetVersionedProof(%q,%d) does not verify against the reference root of version %d (proved value %q, model %q)", op.K, op.N, op.N, p.GetExist().Value, want)
			}
		} else if p.GetNonexist() == nil {
			return w.viol("vread.proof", "GetVersionedProof(absent %q,%d) is not a non-membership proof", op.K, op.N)
		}
		return nil
	}
	it, err := t.GetImmutable(op.N)
	if err != nil {
		return w.viol("vread.getimmutable", "GetImmutable(%d): %v (retained %v)", op.N, err, w.Retained())
	}
	switch op.Read {
	case "get":
		g, err := it.Get(op.K)
		if err != nil || !bytes.Equal(g, want) || (g == nil) == present {
			return w.viol("vread.get", "GetImmutable(%d).Get(%q)=%q,nil=%v,%v want %q present=%v", op.N, op.K, g, g == nil, err, want, present)
		}
	case "has":
		h, err := it.Has(op.K)
		if err != nil || h != present {
			return w.viol("vread.has", "GetImmutable(%d).Has(%q)=%v,%v want %v", op.N, op.K, h, err, present)
		}
	case "hash":
		if h := it.Hash(); !bytes.Equal(h, rhash(vs.Root, 0, false)) {
			return w.viol("vread.hash", "GetImmutable(%d).Hash()=%x want %x", op.N, h, rhash(vs.Root, 0, false))
		}
	default: // iterate
		var got []KV
		if _, err := it.Iterate(func(k, v []byte) bool { got = append(got, KV{cp(k), cp(v)}); return false }); err != nil || !eqKVs(got, sortedKVs(vs.KV)) {
			return w.viol("vread.iterate", "GetImmutable(%d).Iterate=%s,%v want %s", op.N, fmtKVs(got), err, fmtKVs(sortedKVs(vs.KV)))
		}
	}
	return nil
}

// applyRead performs one read-only call on the real tree only (C02 metamorphic half): the model ignores it.
func (w *World) applyRead(op Op) *Violation {
	t := w.Tree
	w.Labels["read_step"] = true
	if w.Dirty {
		w.Labels["read_while_dirty"] = true
	}
	switch op.Read {
	case "proof", "membership", "nonmembership", "imhash":
		if w.WorkingVersion() != w.Cur+1 && hasUnstamped(w.WRoot) {
			w.F1Exposed = true
		}
	}
	switch op.Read {
	case "get":
		_, _ = t.Get(op.K)
	case "has":
		_, _ = t.Has(op.K)
	case "getwithindex":
		_, _, _ = t.GetWithIndex(op.K)
	case "getbyindex":
		_, _, _ = t.GetByIndex(op.N)
	case "iterate":
		_, _ = t.Iterate(func(k, v []byte) bool { return false })
	case "iterator":
		it, err := t.Iterator(nil, nil, op.Flag)
		if err == nil {
			for i := 0; it.Valid() && i < 2; i++ {
				it.Next()
			}
			_ = it.Close()
		}
	case "proof":
		if t.Size() > 0 {
			_, _ = t.GetProof(op.K)
		}
	case "membership":
		if t.Size() > 0 {
			_, _ = t.GetMembershipProof(op.K)
		}
	case "nonmembership":
		if t.Size() > 0 {
			_, _ = t.GetNonMembershipProof(op.K)
		}
	case "versionedproof":
		if w.Latest > 0 {
			_, _ = t.GetVersionedProof(op.K, op.N)
		}
	case "hash":
		h := t.Hash()
		if vs, ok := w.Vers[w.Cur]; ok && w.Cur > 0 && !bytes.Equal(h, rhash(vs.Root, 0, false)) {
			return w.viol("saved.hash", "Hash() %x want hash of version %d %x", h, w.Cur, rhash(vs.Root, 0, false))
		}
	case "workinghash":
		wh := t.WorkingHash()
		if want := rhash(w.WRoot, w.WorkingVersion(), false); !bytes.Equal(wh, want) {
			return w.viol("working.hash", "WorkingHash %x want %x (working version %d)", wh, want, w.WorkingVersion())
		}
	case "imhash":
		_ = t.ImmutableTree.Hash()
	case "getversioned":
		_, _ = t.GetVersioned(op.K, op.N)
	case "getimmutable":
		if it, err := t.GetImmutable(op.N); err == nil {
			_ = it.Hash()
			_, _ = it.Get(op.K)
		}
	case "export":
		if it, err := t.GetImmutable(op.N); err == nil && it.Size() > 0 {
			if ex, err := it.Export(); err == nil {
				for i := 0; i < 3; i++ {
					if _, err := ex.Next(); err != nil {
						break
					}
				}
				ex.Close()
			}
		}
	default:
		return w.viol("harness", "unknown read %q", op.Read)
	}
	return nil
}

// ExportAll drains an exporter (plain or compressed).
func ExportAll(it *iavl.ImmutableTree, compress bool) ([]*iavl.ExportNode, error) {
	ex, err := it.Export()
	if err != nil {
		return nil, err
	}
	defer ex.Close()
	var nexp iavl.NodeExporter = ex
	if compress {
		nexp = iavl.NewCompressExporter(ex)
	}
	var nodes []*iavl.ExportNode
	for {
		n, err := nexp.Next()
		if errors.Is(err, iavl.ErrorExportDone) {
			return nodes, nil
		}
		if err != nil {
			return nodes, err
		}
		c := *n
		nodes = append(nodes, &c)
	}
}

func ImportAll(tr *iavl.MutableTree, version int64, nodes []*iavl.ExportNode, compress bool) error {
	imp, err := tr.Import(version)
	if err != nil {
		return err
	}
	defer imp.Close()
	var nimp iavl.NodeImporter = imp
	if compress {
		nimp = iavl.NewCompressImporter(imp)
	}
	for i, n := range nodes {
		c := *n
		if err := nimp.Add(&c); err != nil {
			return fmt.Errorf("Add node %d: %w", i, err)
		}
	}
	return imp.Commit()
}

// applyHop exports version N and continues on a fresh store holding only the imported version.
func (w *World) applyHop(op Op) *Violation {
	n := op.N
	it, err := w.Tree.GetImmutable(n)
	if err != nil {
		return w.viol("hop.getimmutable", "GetImmutable(%d): %v", n, err)
	}
	vs := w.Vers[n]
	var nodes []*iavl.ExportNode
	if vs.Root != nil {
		nodes, err = ExportAll(it, op.Flag)
		if err != nil {
			return w.viol("hop.export", "export of version %d: %v", n, err)
		}
	}
	if !op.Flag {
		var want []*RNode
		rpost(vs.Root, func(x *RNode) { want = append(want, x) })
		if len(want) != len(nodes) {
			return w.viol("hop.stream", "export of version %d yields %d nodes want %d", n, len(nodes), len(want))
		}
		for i, x := range want {
			g := nodes[i]
			if !bytes.Equal(g.Key, x.Key) || !bytes.Equal(g.Value, x.Value) || g.Version != x.Version || g.Height != x.Height || (x.leaf() && g.Value == nil) {
				return w.viol("hop.stream", "export node %d = {k=%q v=%q ver=%d h=%d} want {k=%q v=%q ver=%d h=%d}", i, g.Key, g.Value, g.Version, g.Height, x.Key, x.Value, x.Version, x.Height)
			}
		}
	}
	// fresh store of the same kind
	_ = w.Tree.Close()
	switch w.Backend {
	case "mem":
		w.Parent = dbm.NewMemDB()
		w.DB = w.Parent
	case "trace":
		w.Trace = NewTraceDB()
		w.Trace.NoJournal = true
		w.Parent, w.DB = w.Trace, w.Trace
	case "prefix":
		p := dbm.NewMemDB()
		for _, k := range outsideKeys(prefixBytes) {
			_ = p.Set(k, []byte("outside"))
		}
		w.Parent = p
		w.DB = dbm.NewPrefixDB(p, prefixBytes)
	case "level":
		if c, ok := w.Parent.(*dbm.GoLevelDB); ok {
			_ = c.Close()
		}
		_ = os.RemoveAll(w.Dir)
		ldb, err := dbm.NewGoLevelDB("t", w.Dir)
		if err != nil {
			panic(err)
		}
		w.Parent, w.DB = ldb, ldb
	}
	if op.Cfg != nil {
		w.Cfg = *op.Cfg
	}
	w.Cfg.InitVer = 0
	w.newTree()
	if op.Read == "preused" {
		// the receiving handle has been written to before the import (nothing saved, and empty again): Import accepts it,
		// and nothing of that use may survive the import
		for i, kv := range sortedKVs(vs.KV) {
			if i >= 3 {
				break
			}
			if _, err := w.Tree.Set(cp(kv.K), []byte("pre-import")); err != nil {
				return w.viol("hop.preuse", "Set before the import: %v", err)
			}
		}
		for i, kv := range sortedKVs(vs.KV) {
			if i >= 3 {
				break
			}
			if _, _, err := w.Tree.Remove(cp(kv.K)); err != nil {
				return w.viol("hop.preuse", "Remove before the import: %v", err)
			}
		}
		w.Labels["import_into_a_handle_that_was_written_to_and_emptied_again"] = true
	}
	if vs.Root != nil {
		if err := ImportAll(w.Tree, n, nodes, op.Flag); err != nil {
			return w.viol("hop.import", "import of version %d (%d nodes): %v", n, len(nodes), err)
		}
	} else {
		imp, err := w.Tree.Import(n)
		if err != nil {
			return w.viol("hop.import", "Import(%d): %v", n, err)
		}
		if err := imp.Commit(); err != nil {
			return w.viol("hop.import", "Commit of empty import: %v", err)
		}
		imp.Close()
	}
	if op.Read == "preused" || op.Read == "samehandle" {
		// the importing handle itself goes on (Importer.Commit has loaded the imported version into it)
		if v := w.Tree.Version(); v != n {
			return w.viol("hop.version", "after Importer.Commit the importing handle is at version %d want %d", v, n)
		}
		w.Labels["import_continued_on_the_importing_handle"] = true
	} else {
		// continue through a fresh handle, as state sync does
		w.newTree()
		lv, err := w.Tree.Load()
		if err != nil || lv != n {
			return w.viol("hop.load", "Load after import = %d,%v want %d", lv, err, n)
		}
	}
	w.EverFast = !w.Cfg.SkipFast
	w.Vers = map[int64]*VerState{n: vs}
	w.First, w.Latest, w.Cur, w.Base = n, n, n, n
	w.setWorkingFrom(n)
	w.InitPending = false
	w.Labels["hop"] = true
	return nil
}

// probeKeys: all present keys plus absent neighbours, prefixes, extensions, below min / above max.
func probeKeys(kv map[string][]byte) (present []string, absent []string) {
	present = sortedKeys(kv)
	seen := map[string]bool{}
	add := func(k string) {
		if k == "" {
			return
		}
		if _, ok := kv[k]; ok {
			return
		}
		if !seen[k] {
			seen[k] = true
			absent = append(absent, k)
		}
	}
	for _, k := range present {
		add(k + "\x00")
		add(k + "a")
		if len(k) == 0 {
			continue
		}
		add(k[:len(k)-1])
		b := []byte(k)
		if b[len(b)-1] > 0 {
			b[len(b)-1]--
			add(string(b) + "\xff")
		}
	}
	add("\x00")
	add("\xff\xff\xff")
	add("a")
	add("b")
	add("zz")
	sort.Strings(absent)
	return
}

// Observe runs the enabled observers.
func (w *World) Observe() (v *Violation) {
	defer func() {
		if r := recover(); r != nil {
			v = w.viol("panic.observe", "panic in observer: %v", r)
		}
	}()
	if w.Obs.Reads || w.Obs.Light {
		if v := w.checkWorking(); v != nil {
			return v
		}
	}
	if (w.Obs.Hash && !w.Obs.NoStepWorkingHash) || w.Obs.Light {
		wh := w.Tree.WorkingHash()
		if want := rhash(w.WRoot, w.WorkingVersion(), false); !bytes.Equal(wh, want) {
			return w.viol("working.hash", "WorkingHash %x want %x (working version %d)", wh, want, w.WorkingVersion())
		}
	}
	if w.Obs.Hash || w.Obs.Light {
		if w.Cur > 0 {
			if vs, ok := w.Vers[w.Cur]; ok {
				if h := w.Tree.Hash(); !bytes.Equal(h, rhash(vs.Root, 0, false)) {
					return w.viol("saved.hash", "Hash() %x want hash of version %d %x", h, w.Cur, rhash(vs.Root, 0, false))
				}
			}
		}
	}
	if w.Obs.Reads || w.Obs.Hash || w.Obs.Versions || w.Obs.Proofs || w.Obs.Fast {
		if v := w.checkVersions(w.Tree, ""); v != nil {
			return v
		}
	}
	if len(w.Held) > 0 {
		if v := w.checkHeld(); v != nil {
			return v
		}
	}
	if w.Obs.Hybrid {
		st, aerr := auditHybrid(w.rawDump(), w.Vers)
		if aerr != nil {
			return w.viol("hybrid."+aerr.Kind, "%s", aerr.Msg)
		}
		w.Cnt["hybrid_legacy_nodes_read"] += st.LegacyNodes
		w.Cnt["hybrid_new_nodes_read"] += st.NewNodes
		for m := 1; m <= 3; m++ {
			if st.Mode[m] > 0 {
				w.Labels[fmt.Sprintf("hybrid_mode%d_on_disk", m)] = true
			}
		}
	}
	if w.Obs.Audit || w.Obs.Fields {
		raw := w.rawDump()
		st, aerr := auditRaw(raw, w.Vers, w.Obs.Fields)
		if aerr != nil {
			if w.Obs.Audit && (aerr.Kind == "missing" || aerr.Kind == "extra" || aerr.Kind == "rootmarker") {
				return w.viol("audit."+aerr.Kind, "%s", aerr.Msg)
			}
			if w.Obs.Fields {
				return w.viol("audit."+aerr.Kind, "%s", aerr.Msg)
			}
		}
		w.Cnt["audit_nodes"] += st.Nodes
		if st.RefRoots > 0 {
			w.Labels["ref_root_on_disk"] = true
		}
		if st.EmptyRoots > 0 {
			w.Labels["empty_root_on_disk"] = true
		}
		if st.Rekeyed > 0 {
			w.Labels["rekeyed_root_on_disk"] = true
		}
		if st.Inner > 0 {
			w.Labels["inner_on_disk"] = true
		}
		if w.Obs.Audit && len(w.Vers) > 0 && w.fastIndexCurrent() {
			if err := auditFast(raw, w.Vers, w.Latest); err != nil {
				return w.viol("audit.fast", "%v", err)
			}
		}
		if w.Obs.Audit && w.Backend == "prefix" {
			pd := DumpDB(w.Parent)
			for _, k := range outsideKeys(prefixBytes) {
				if string(pd[string(k)]) != "outside" {
					return w.viol("audit.prefix", "key %x outside the namespace was touched", k)
				}
			}
		}
	}
	if w.Obs.Fast && !w.Obs.Audit && len(w.Vers) > 0 && w.fastIndexCurrent() {
		if err := auditFast(w.rawDump(), w.Vers, w.Latest); err != nil {
			return w.viol("audit.fast", "%v", err)
		}
	}
	return nil
}

// fastIndexCurrent: the live handle has the index enabled, so after its open / every commit of it the
// persisted index must describe exactly the latest version.
func (w *World) fastIndexCurrent() bool { return !w.Cfg.SkipFast }

func (w *World) checkWorking() *Violation {
	tr := w.Tree
	kvs := sortedKVs(w.WKV)
	if int(tr.Size()) != len(kvs) {
		return w.viol("working.size", "working Size=%d want %d", tr.Size(), len(kvs))
	}
	if tr.IsEmpty() != (len(kvs) == 0) {
		return w.viol("working.isempty", "IsEmpty()=%v with %d keys in the working state", tr.IsEmpty(), len(kvs))
	}
	if tr.Version() != w.Cur {
		return w.viol("working.version", "Version()=%d, the handle sits on version %d", tr.Version(), w.Cur)
	}
	if w.Obs.Light && !w.Obs.Reads {
		return nil
	}
	for i, kv := range kvs {
		g, err := tr.Get(w.rk(kv.K))
		if err != nil || !bytes.Equal(g, kv.V) || g == nil {
			return w.viol("working.get", "working Get(%q)=%q,nil=%v,%v want %q", kv.K, g, g == nil, err, kv.V)
		}
		if has, err := tr.Has(w.rk(kv.K)); err != nil || !has {
			return w.viol("working.has", "working Has(%q)=%v,%v want true", kv.K, has, err)
		}
		idx, v, err := tr.GetWithIndex(w.rk(kv.K))
		if err != nil || idx != int64(i) || !bytes.Equal(v, kv.V) || v == nil {
			return w.viol("working.getwithindex", "working GetWithIndex(%q)=%d,%q,%v want %d,%q", kv.K, idx, v, err, i, kv.V)
		}
		k2, v2, err := tr.GetByIndex(int64(i))
		if err != nil || !bytes.Equal(k2, kv.K) || !bytes.Equal(v2, kv.V) {
			return w.viol("working.getbyindex", "working GetByIndex(%d)=%q,%q,%v want %q,%q", i, k2, v2, err, kv.K, kv.V)
		}
	}
	_, absent := probeKeys(w.WKV)
	sortedW := sortedKeys(w.WKV)
	for _, k := range absent {
		g, err := tr.Get(w.rk([]byte(k)))
		if err != nil || g != nil {
			return w.viol("working.get_absent", "working Get(absent %q)=%q,%v", k, g, err)
		}
		if has, err := tr.Has(w.rk([]byte(k))); err != nil || has {
			return w.viol("working.has_absent", "working Has(absent %q)=%v,%v", k, has, err)
		}
		idx, v, err := tr.GetWithIndex(w.rk([]byte(k)))
		wantIdx := int64(sort.SearchStrings(sortedW, k))
		if err != nil || v != nil || idx != wantIdx {
			return w.viol("working.getwithindex_absent", "working GetWithIndex(absent %q)=%d,%q,%v want %d,nil", k, idx, v, err, wantIdx)
		}
	}
	if k, v, err := tr.GetByIndex(int64(len(kvs))); k != nil || v != nil {
		return w.viol("working.getbyindex_oob", "working GetByIndex(%d) out of range = %q,%q,%v", len(kvs), k, v, err)
	}
	var got []KV
	stopped, err := tr.Iterate(func(k, v []byte) bool { got = append(got, KV{cp(k), cp(v)}); return false })
	if err != nil || stopped {
		return w.viol("working.iterate", "working Iterate stopped=%v err=%v", stopped, err)
	}
	if !eqKVs(got, kvs) {
		return w.viol("working.iterate", "working Iterate=%s want %s", fmtKVs(got), fmtKVs(kvs))
	}
	it, err := tr.Iterator(nil, nil, true)
	if err != nil {
		return w.viol("working.iterator", "working Iterator: %v", err)
	}
	got, err = drain(it)
	if err != nil || !eqKVs(got, kvs) {
		return w.viol("working.iterator", "working Iterator=%s,%v want %s", fmtKVs(got), err, fmtKVs(kvs))
	}
	if w.Obs.Fast {
		// walk path of the working tree
		var walk []KV
		tr.ImmutableTree.IterateRange(nil, nil, true, func(k, v []byte) bool { walk = append(walk, KV{cp(k), cp(v)}); return false })
		if !eqKVs(walk, kvs) {
			return w.viol("working.walk", "working IterateRange=%s want %s", fmtKVs(walk), fmtKVs(kvs))
		}
		it, err := tr.Iterator(nil, nil, false)
		if err != nil {
			return w.viol("working.iterator_desc", "%v", err)
		}
		got, err = drain(it)
		want := expectRange(w.WKV, nil, nil, false, false)
		if err != nil || !eqKVs(got, want) {
			return w.viol("working.iterator_desc", "working descending Iterator=%s,%v want %s", fmtKVs(got), err, fmtKVs(want))
		}
	}
	return nil
}

func fmtKVs(kvs []KV) string {
	var b bytes.Buffer
	b.WriteByte('[')
	for i, kv := range kvs {
		if i > 0 {
			b.WriteByte(' ')
		}
		fmt.Fprintf(&b, "%q=%q", kv.K, kv.V)
	}
	b.WriteByte(']')
	return b.String()
}

func drain(it corestore.Iterator) ([]KV, error) {
	var out []KV
	for ; it.Valid(); it.Next() {
		out = append(out, KV{cp(it.Key()), cp(it.Value())})
		if len(out) > 1_000_000 {
			return out, fmt.Errorf("iterator does not terminate")
		}
	}
	if it.Valid() || it.Valid() {
		return out, fmt.Errorf("Valid() true after exhaustion")
	}
	if err := it.Error(); err != nil {
		_ = it.Close()
		return out, err
	}
	return out, it.Close()
}

// Retained returns the retained version numbers in ascending order (contiguous for new-format stores; a legacy
// store may have holes).
func (w *World) Retained() []int64 {
	out := make([]int64, 0, len(w.Vers))
	for v := range w.Vers {
		out = append(out, v)
	}
	sort.Slice(out, func(i, j int) bool { return out[i] < out[j] })
	return out
}

// probeVersions: 0, 1 and every version number from just below the first version ever committed to latest+1.
func (w *World) probeVersions() []int64 {
	out := []int64{0}
	lo := w.Base - 1
	if w.Base == 0 {
		lo = 1
	}
	if lo > 1 {
		out = append(out, 1)
	}
	if lo < 1 {
		lo = 1
	}
	for v := lo; v <= w.Latest+1; v++ {
		out = append(out, v)
	}
	if w.Latest == 0 {
		out = append(out, 1, 2)
	}
	return out
}

// checkVersions: all version-indexed observations through handle tr (the live one or a fresh one).
func (w *World) checkVersions(tr *iavl.MutableTree, via string) *Violation {
	obs := func(s string) string { return via + s }
	if w.Obs.Versions || w.Obs.Reads {
		var wantAvail []int
		for _, v := range w.Retained() {
			wantAvail = append(wantAvail, int(v))
		}
		av := tr.AvailableVersions()
		if w.Latest > 0 || !Open("F9") {
			if fmt.Sprint(av) != fmt.Sprint(wantAvail) && !(len(av) == 0 && len(wantAvail) == 0) {
				return w.viol(obs("versions.available"), "AvailableVersions=%v want %v", av, wantAvail)
			}
		} else {
			w.Excl["F9"]++
		}
		lv, err := tr.GetLatestVersion()
		if err != nil || lv != w.Latest {
			return w.viol(obs("versions.latest"), "GetLatestVersion=%d,%v want %d", lv, err, w.Latest)
		}
	}
	for _, v := range w.probeVersions() {
		vs, ok := w.Vers[v]
		if w.Obs.Versions || w.Obs.Reads {
			if ex := tr.VersionExists(v); ex != ok {
				return w.viol(obs("versions.exists"), "VersionExists(%d)=%v want %v (retained %d..%d)", v, ex, ok, w.First, w.Latest)
			}
		}
		it, err := tr.GetImmutable(v)
		if !ok {
			if w.Obs.Versions || w.Obs.Reads {
				if err == nil {
					return w.viol(obs("versions.getimmutable_unavailable"), "GetImmutable(%d) of unavailable version succeeded (retained %d..%d)", v, w.First, w.Latest)
				}
				g, err := tr.GetVersioned([]byte("a"), v)
				if g != nil {
					return w.viol(obs("versions.getversioned_unavailable"), "GetVersioned(a,%d) of unavailable version = %q,%v", v, g, err)
				}
			}
			continue
		}
		if err != nil {
			return w.viol(obs("versions.getimmutable"), "GetImmutable(%d): %v", v, err)
		}
		if w.Obs.Hash || w.Obs.Reads || w.Obs.Versions {
			if h := it.Hash(); !bytes.Equal(h, rhash(vs.Root, 0, false)) {
				return w.viol(obs("version.hash"), "version %d hash %x want %x", v, h, rhash(vs.Root, 0, false))
			}
		}
		if w.Obs.Reads || w.Obs.Fast {
			if x := w.checkVersionReads(tr, it, v, vs, via); x != nil {
				return x
			}
		}
		if w.Obs.Proofs {
			if x := w.checkProofs(tr, it, v, vs, via); x != nil {
				return x
			}
		}
	}
	return nil
}

func (w *World) checkVersionReads(tr *iavl.MutableTree, it *iavl.ImmutableTree, v int64, vs *VerState, via string) *Violation {
	obs := func(s string) string { return via + s }
	kvs := sortedKVs(vs.KV)
	if it.Size() != int64(len(kvs)) {
		return w.viol(obs("version.size"), "version %d Size=%d want %d", v, it.Size(), len(kvs))
	}
	if it.Version() != v {
		return w.viol(obs("version.version"), "GetImmutable(%d).Version()=%d", v, it.Version())
	}
	var got []KV
	stopped, err := it.Iterate(func(k, v []byte) bool { got = append(got, KV{cp(k), cp(v)}); return false })
	if err != nil || stopped || !eqKVs(got, kvs) {
		return w.viol(obs("version.iterate"), "version %d Iterate=%s,%v want %s", v, fmtKVs(got), err, fmtKVs(kvs))
	}
	if w.Obs.Fast {
		var walk []KV
		it.IterateRange(nil, nil, true, func(k, v []byte) bool { walk = append(walk, KV{cp(k), cp(v)}); return false })
		if !eqKVs(walk, kvs) {
			return w.viol(obs("version.walk"), "version %d IterateRange=%s want %s", v, fmtKVs(walk), fmtKVs(kvs))
		}
		ii, err := it.Iterator(nil, nil, false)
		if err != nil {
			return w.viol(obs("version.iterator_desc"), "%v", err)
		}
		g2, err := drain(ii)
		want := expectRange(vs.KV, nil, nil, false, false)
		if err != nil || !eqKVs(g2, want) {
			return w.viol(obs("version.iterator_desc"), "version %d descending Iterator=%s,%v want %s", v, fmtKVs(g2), err, fmtKVs(want))
		}
	}
	for i, kv := range kvs {
		g, err := it.Get(w.rk(kv.K))
		if err != nil || !bytes.Equal(g, kv.V) || g == nil {
			return w.viol(obs("version.get"), "version %d Get(%q)=%q,%v want %q", v, kv.K, g, err, kv.V)
		}
		g, err = tr.GetVersioned(w.rk(kv.K), v)
		if err != nil || !bytes.Equal(g, kv.V) || g == nil {
			return w.viol(obs("version.getversioned"), "GetVersioned(%q,%d)=%q,%v want %q", kv.K, v, g, err, kv.V)
		}
		idx, val, err := it.GetWithIndex(w.rk(kv.K))
		if err != nil || idx != int64(i) || !bytes.Equal(val, kv.V) {
			return w.viol(obs("version.getwithindex"), "version %d GetWithIndex(%q)=%d,%q,%v want %d,%q", v, kv.K, idx, val, err, i, kv.V)
		}
		k2, v2, err := it.GetByIndex(int64(i))
		if err != nil || !bytes.Equal(k2, kv.K) || !bytes.Equal(v2, kv.V) {
			return w.viol(obs("version.getbyindex"), "version %d GetByIndex(%d)=%q,%q,%v want %q,%q", v, i, k2, v2, err, kv.K, kv.V)
		}
		if has, err := it.Has(w.rk(kv.K)); err != nil || !has {
			return w.viol(obs("version.has"), "version %d Has(%q)=%v,%v", v, kv.K, has, err)
		}
	}
	_, absent := probeKeys(vs.KV)
	sortedV := sortedKeys(vs.KV)
	for _, k := range absent {
		g, err := it.Get(w.rk([]byte(k)))
		if err != nil || g != nil {
			return w.viol(obs("version.get_absent"), "version %d Get(absent %q)=%q,%v", v, k, g, err)
		}
		g, err = tr.GetVersioned(w.rk([]byte(k)), v)
		if err != nil || g != nil {
			return w.viol(obs("version.getversioned_absent"), "GetVersioned(absent %q,%d)=%q,%v", k, v, g, err)
		}
		if has, err := it.Has(w.rk([]byte(k))); err != nil || has {
			return w.viol(obs("version.has_absent"), "version %d Has(absent %q)=%v,%v", v, k, has, err)
		}
		idx, val, err := it.GetWithIndex(w.rk([]byte(k)))
		wantIdx := int64(sort.SearchStrings(sortedV, k))
		if err != nil || val != nil || idx != wantIdx {
			return w.viol(obs("version.getwithindex_absent"), "version %d GetWithIndex(absent %q)=%d,%q,%v want %d", v, k, idx, val, err, wantIdx)
		}
	}
	return nil
}

// checkFresh re-checks everything through a fresh handle on the same store (process restart).
func (w *World) checkFresh(after string) *Violation {
	if w.Backend == "level" {
		return nil // one process holds the LevelDB lock; restart is exercised by the reopen op instead
	}
	opts := []iavl.Option{iavl.FlushThresholdOption(w.Cfg.Flush)}
	// the fresh handle never builds the index (it must not write), it only reads
	tr := iavl.NewMutableTree(w.DB, 0, true, iavl.NewNopLogger(), opts...)
	lv, err := tr.Load()
	if err != nil {
		return w.viol("fresh."+after+".load", "fresh handle Load after %s: %v", after, err)
	}
	if lv != w.Latest {
		return w.viol("fresh."+after+".latest", "fresh handle Load=%d want %d", lv, w.Latest)
	}
	w.Labels["fresh_check"] = true
	save := w.Obs
	w.Obs.Versions = true
	defer func() { w.Obs = save }()
	return w.checkVersions(tr, "fresh.")
}

// Replay executes a recorded history; returns the first violation.
func Replay(h History, obs Observers) (*World, *Violation, error) {
	w, err := NewWorld(h.Prop, h.Backend, h.Cfg, obs)
	if err != nil {
		return nil, nil, err
	}
	for _, op := range h.Ops {
		if v := w.Apply(op); v != nil {
			return w, v, nil
		}
		if v := w.Observe(); v != nil {
			return w, v, nil
		}
	}
	return w, nil, nil
}

// drainToEmpty (C12): remove every key, commit, delete all older versions: no node may remain.
func (w *World) drainToEmpty() *Violation {
	if w.Latest == 0 {
		return nil
	}
	w.unpinAll()
	if w.Cur != w.Latest {
		c := w.Cfg
		if v := w.Apply(Op{Kind: "reopen", Cfg: &c}); v != nil {
			return v
		}
		w.trackIndex(Op{Kind: "reopen"})
	}
	for _, k := range sortedKeys(w.WKV) {
		if v := w.Apply(Op{Kind: "remove", K: []byte(k)}); v != nil {
			return v
		}
	}
	if v := w.Apply(Op{Kind: "save"}); v != nil {
		return v
	}
	w.trackIndex(Op{Kind: "save"})
	if v := w.Apply(Op{Kind: "prune", N: w.Latest - 1}); v != nil {
		return v
	}
	if v := w.Observe(); v != nil {
		return v
	}
	raw := w.rawDump()
	for k, val := range raw {
		switch k[0] {
		case 's':
			if k != nk(w.Latest, 1) || len(val) != 0 {
				ver, non := unNK(k)
				return w.viol("audit.drain", "after removing every key and pruning, node entry (%d,%d)=%x remains", ver, non, val)
			}
		case 'f':
			if !w.Cfg.SkipFast {
				return w.viol("audit.drain", "after removing every key, fast entry %q remains", k[1:])
			}
		}
	}
	w.Labels["drained"] = true
	return nil
}

// checkKeyOrder (C13): node keys are big-endian (version, nonce) and therefore iterate numerically.
func (w *World) checkKeyOrder() *Violation {
	it, err := w.DB.Iterator([]byte("s"), []byte("t"))
	if err != nil {
		return w.viol("harness", "%v", err)
	}
	defer it.Close()
	var pv int64 = -1
	var pn uint32
	for ; it.Valid(); it.Next() {
		k := string(it.Key())
		if len(k) != 13 {
			return w.viol("format.key", "node key %x is not 13 bytes", k)
		}
		v, n := unNK(k)
		if v < pv || (v == pv && n <= pn) {
			return w.viol("format.key_order", "node keys do not sort numerically: (%d,%d) after (%d,%d)", v, n, pv, pn)
		}
		if v <= 0 {
			return w.viol("format.key", "node key with version %d", v)
		}
		pv, pn = v, n
	}
	return nil
}

// checkLoadEach (C14): LoadVersion(v) on a throw-away handle succeeds exactly for retained versions and
// leaves the handle usable.
func (w *World) checkLoadEach() *Violation {
	if w.Backend == "level" {
		return nil
	}
	for _, v := range w.probeVersions() {
		if v == 0 {
			continue
		}
		tr := iavl.NewMutableTree(w.DB, 0, true, iavl.NewNopLogger())
		_, err := tr.LoadVersion(v)
		vs, ok := w.Vers[v]
		if ok && err != nil {
			return w.viol("versions.loadversion", "LoadVersion(%d) of a retained version failed: %v", v, err)
		}
		if !ok && err == nil {
			return w.viol("versions.loadversion_unavailable", "LoadVersion(%d) succeeded but retained range is %d..%d", v, w.First, w.Latest)
		}
		if ok {
			if h := tr.Hash(); !bytes.Equal(h, rhash(vs.Root, 0, false)) {
				return w.viol("versions.loadversion_hash", "LoadVersion(%d) hash %x want %x", v, h, rhash(vs.Root, 0, false))
			}
		} else if w.Latest > 0 {
			// still usable
			if lv, err := tr.LoadVersion(w.Latest); err != nil || lv != w.Latest {
				return w.viol("versions.usable_after_failed_load", "after failed LoadVersion(%d), LoadVersion(latest)=%d,%v", v, lv, err)
			}
		}
	}
	return nil
}

// checkUnloadedHandle (C07, C14): a handle that was constructed but never loaded can serve GetImmutable(v) reads; with the
// index setting of the live configuration every answer must still equal the model (fast path guards must not depend on a
// latest version this handle never discovered).
// checkReplayFirstVersionOnNewHandle: a process that starts over from nothing (new handle, nothing loaded, same
// initial-version configuration) and replays the writes of the FIRST version, which the store still holds: the commit
// names an existing version with an identical root hash, so it must succeed without effect (C14).
func (w *World) checkReplayFirstVersionOnNewHandle() *Violation {
	if w.Backend == "level" || w.Base == 0 || w.LegacyOrig > 0 {
		return nil
	}
	vs := w.Vers[w.Base]
	if vs == nil {
		return nil
	}
	// the recorded writes must rebuild the version from the empty tree (not the case for an imported first version, or
	// when the write log of that version is incomplete): decided by the reference hash
	var root *RNode
	for _, o := range vs.Writes {
		switch o.Kind {
		case "set":
			val := o.V
			if val == nil {
				val = []byte{}
			}
			root, _ = rset(root, o.K, val)
		case "remove":
			if r2, _, _, removed := rremove(root, o.K); removed {
				root = r2
			}
		}
	}
	if !bytes.Equal(rhash(root, w.Base, true), rhash(vs.Root, 0, false)) {
		return nil
	}
	opts := []iavl.Option{iavl.FlushThresholdOption(w.Cfg.Flush)}
	if w.Cfg.InitVer > 0 && !w.Cfg.InitMethod {
		opts = append(opts, iavl.InitialVersionOption(w.Cfg.InitVer))
	}
	tr := iavl.NewMutableTree(w.DB, 0, w.Cfg.SkipFast, iavl.NewNopLogger(), opts...)
	if w.Cfg.InitVer > 0 && w.Cfg.InitMethod {
		tr.SetInitialVersion(w.Cfg.InitVer)
	}
	if int64(w.Cfg.InitVer) != w.Base && !(w.Cfg.InitVer == 0 && w.Base == 1) {
		return nil // (the store was started under another initial-version configuration than the handle has now)
	}
	before := w.rawDump()
	for _, o := range vs.Writes {
		switch o.Kind {
		case "set":
			val := o.V
			if val == nil {
				val = []byte{}
			}
			if _, err := tr.Set(cp(o.K), cp(val)); err != nil {
				return w.viol("replayfirst.set", "new handle, replay of the first version: Set(%q): %v", o.K, err)
			}
		case "remove":
			if _, _, err := tr.Remove(cp(o.K)); err != nil {
				return w.viol("replayfirst.remove", "new handle, replay of the first version: Remove(%q): %v", o.K, err)
			}
		}
	}
	h, v, err := tr.SaveVersion()
	if err != nil || v != w.Base || !bytes.Equal(h, rhash(vs.Root, 0, false)) {
		return w.viol("replayfirst.save", "a new handle (nothing loaded) replays the writes of the first version %d, which exists with the identical root hash %x: SaveVersion = %x,%d,%v", w.Base, rhash(vs.Root, 0, false), h, v, err)
	}
	if !eqDump(before, w.rawDump()) {
		return w.viol("replayfirst.effect", "the idempotent re-commit of the first version %d by a new handle changed the store", w.Base)
	}
	w.Labels["first_version_replayed_on_a_new_handle"] = true
	if w.Cfg.InitVer > 1 {
		w.Labels["first_version_replayed_on_a_new_handle_with_initial_version"] = true
	}
	return nil
}

func (w *World) checkUnloadedHandle() *Violation {
	if w.Backend == "level" || w.Latest == 0 {
		return nil
	}
	tr := iavl.NewMutableTree(w.DB, 0, w.Cfg.SkipFast, iavl.NewNopLogger())
	for _, v := range w.Retained() {
		vs := w.Vers[v]
		it, err := tr.GetImmutable(v)
		if err != nil {
			return w.viol("unloaded.getimmutable", "unloaded handle: GetImmutable(%d): %v", v, err)
		}
		present, absent := probeKeys(vs.KV)
		for _, k := range present {
			g, err := it.Get([]byte(k))
			if err != nil || !bytes.Equal(g, vs.KV[k]) || g == nil {
				return w.viol("unloaded.get", "unloaded handle: version %d Get(%q)=%q,nil=%v,%v want %q", v, k, g, g == nil, err, vs.KV[k])
			}
		}
		for _, k := range absent {
			if g, err := it.Get([]byte(k)); err != nil || g != nil {
				return w.viol("unloaded.get_absent", "unloaded handle: version %d Get(absent %q)=%q,%v", v, k, g, err)
			}
		}
	}
	w.Labels["unloaded_handle_reads"] = true
	return nil
}

package harness

// Independent reference implementation of the IAVL+ rules (persistent, purely functional).
// Written from the documented rules (README, docs/node/node.md, docs/proof); it lives in /verif so a
// change to /repo cannot move it. Anchored by golden_test.go (TestTreeHash vectors of the repository
// regenerated op-for-op and fed to this model only).

import (
	"bytes"
	"crypto/sha256"
	"encoding/binary"
	"sort"
)

type RNode struct {
	Key, Value  []byte
	Height      int8
	Size        int64
	Version     int64 // 0 = not yet committed
	Hash        []byte
	Left, Right *RNode
}

func (n *RNode) leaf() bool { return n.Height == 0 }

// RefCounters are incremented by the model; used only for non-triviality rules.
type RefCounters struct{ Rot, DoubleRot, Removals int }

var refCnt RefCounters

func rleaf(k, v []byte) *RNode { return &RNode{Key: k, Value: v, Height: 0, Size: 1} }

func rinner(key []byte, l, r *RNode) *RNode {
	h := l.Height
	if r.Height > h {
		h = r.Height
	}
	return &RNode{Key: key, Height: h + 1, Size: l.Size + r.Size, Left: l, Right: r}
}

func rset(n *RNode, k, v []byte) (*RNode, bool) {
	if n == nil {
		return rleaf(k, v), false
	}
	if n.leaf() {
		switch bytes.Compare(k, n.Key) {
		case -1:
			return rinner(n.Key, rleaf(k, v), n), false
		case 1:
			return rinner(k, n, rleaf(k, v)), false
		default:
			return rleaf(k, v), true
		}
	}
	var l, r = n.Left, n.Right
	var upd bool
	if bytes.Compare(k, n.Key) < 0 {
		l, upd = rset(l, k, v)
	} else {
		r, upd = rset(r, k, v)
	}
	if upd {
		// no rebalance; height/size unchanged
		return &RNode{Key: n.Key, Height: n.Height, Size: n.Size, Left: l, Right: r}, true
	}
	return rbalance(rinner(n.Key, l, r)), false
}

func bal(n *RNode) int { return int(n.Left.Height) - int(n.Right.Height) }

func rotR(n *RNode) *RNode {
	refCnt.Rot++
	l := n.Left
	return rinner(l.Key, l.Left, rinner(n.Key, l.Right, n.Right))
}
func rotL(n *RNode) *RNode {
	refCnt.Rot++
	r := n.Right
	return rinner(r.Key, rinner(n.Key, n.Left, r.Left), r.Right)
}

func rbalance(n *RNode) *RNode {
	b := bal(n)
	if b > 1 {
		if bal(n.Left) >= 0 {
			return rotR(n)
		}
		refCnt.DoubleRot++
		return rotR(rinner(n.Key, rotL(n.Left), n.Right))
	}
	if b < -1 {
		if bal(n.Right) <= 0 {
			return rotL(n)
		}
		refCnt.DoubleRot++
		return rotL(rinner(n.Key, n.Left, rotR(n.Right)))
	}
	return n
}

// rremove returns (newNode, newLeftmostKey, removedValue, removed)
func rremove(n *RNode, k []byte) (*RNode, []byte, []byte, bool) {
	if n == nil {
		return nil, nil, nil, false
	}
	if n.leaf() {
		if bytes.Equal(k, n.Key) {
			refCnt.Removals++
			return nil, nil, n.Value, true
		}
		return n, nil, nil, false
	}
	if bytes.Compare(k, n.Key) < 0 {
		nl, nk, val, rm := rremove(n.Left, k)
		if !rm {
			return n, nil, nil, false
		}
		if nl == nil {
			return n.Right, n.Key, val, true
		}
		return rbalance(rinner(n.Key, nl, n.Right)), nk, val, true
	}
	nr, nk, val, rm := rremove(n.Right, k)
	if !rm {
		return n, nil, nil, false
	}
	if nr == nil {
		return n.Left, nil, val, true
	}
	key := n.Key
	if nk != nil {
		key = nk
	}
	return rbalance(rinner(key, n.Left, nr)), nil, val, true
}

func putVarint(b *bytes.Buffer, x int64) {
	var tmp [binary.MaxVarintLen64]byte
	n := binary.PutVarint(tmp[:], x)
	b.Write(tmp[:n])
}
func putUvarint(b *bytes.Buffer, x uint64) {
	var tmp [binary.MaxVarintLen64]byte
	n := binary.PutUvarint(tmp[:], x)
	b.Write(tmp[:n])
}
func putBytes(b *bytes.Buffer, bz []byte) {
	putUvarint(b, uint64(len(bz)))
	b.Write(bz)
}

var emptyHash = func() []byte { h := sha256.Sum256(nil); return h[:] }()

// rhash computes the hash, treating uncommitted nodes as version wv. If stamp, it
// stamps the version and memoises the hash (= commit of the working tree as version wv).
func rhash(n *RNode, wv int64, stamp bool) []byte {
	if n == nil {
		return emptyHash
	}
	if n.Hash != nil {
		return n.Hash
	}
	v := n.Version
	if v == 0 {
		v = wv
	}
	var b bytes.Buffer
	putVarint(&b, int64(n.Height))
	putVarint(&b, n.Size)
	putVarint(&b, v)
	if n.leaf() {
		putBytes(&b, n.Key)
		vh := sha256.Sum256(n.Value)
		putBytes(&b, vh[:])
	} else {
		putBytes(&b, rhash(n.Left, wv, stamp))
		putBytes(&b, rhash(n.Right, wv, stamp))
	}
	h := sha256.Sum256(b.Bytes())
	if stamp {
		n.Version = wv
		n.Hash = h[:]
	}
	return h[:]
}

// rget returns (rank, value); value nil if absent, rank = insertion rank then.
func rget(n *RNode, k []byte) (int64, []byte) {
	if n == nil {
		return 0, nil
	}
	if n.leaf() {
		switch bytes.Compare(n.Key, k) {
		case -1:
			return 1, nil
		case 1:
			return 0, nil
		default:
			return 0, n.Value
		}
	}
	if bytes.Compare(k, n.Key) < 0 {
		return rget(n.Left, k)
	}
	i, v := rget(n.Right, k)
	return i + n.Left.Size, v
}

func rwalk(n *RNode, f func(*RNode)) {
	if n == nil {
		return
	}
	if n.leaf() {
		f(n)
		return
	}
	rwalk(n.Left, f)
	rwalk(n.Right, f)
}

// rpost visits all nodes in post-order (left, right, self) - the documented export order.
func rpost(n *RNode, f func(*RNode)) {
	if n == nil {
		return
	}
	if !n.leaf() {
		rpost(n.Left, f)
		rpost(n.Right, f)
	}
	f(n)
}

func rheight(n *RNode) int8 {
	if n == nil {
		return 0
	}
	return n.Height
}
func rsize(n *RNode) int64 {
	if n == nil {
		return 0
	}
	return n.Size
}

// hasUnstamped reports whether the tree contains nodes created since the last commit.
func hasUnstamped(n *RNode) bool { return n != nil && n.Version == 0 }

// distinctVersions on the path from root to key k (for C03 non-triviality)
func pathVersions(n *RNode, k []byte) int {
	seen := map[int64]bool{}
	for n != nil {
		seen[n.Version] = true
		if n.leaf() {
			break
		}
		if bytes.Compare(k, n.Key) < 0 {
			n = n.Left
		} else {
			n = n.Right
		}
	}
	return len(seen)
}

// ---- plain versioned map model

type KV struct{ K, V []byte }

func sortedKVs(m map[string][]byte) []KV {
	ks := make([]string, 0, len(m))
	for k := range m {
		ks = append(ks, k)
	}
	sort.Strings(ks)
	out := make([]KV, len(ks))
	for i, k := range ks {
		out[i] = KV{[]byte(k), m[k]}
	}
	return out
}

func sortedKeys(m map[string][]byte) []string {
	ks := make([]string, 0, len(m))
	for k := range m {
		ks = append(ks, k)
	}
	sort.Strings(ks)
	return ks
}

func copyKV(m map[string][]byte) map[string][]byte {
	c := make(map[string][]byte, len(m))
	for k, v := range m {
		c[k] = v
	}
	return c
}

func eqKVs(a, b []KV) bool {
	if len(a) != len(b) {
		return false
	}
	for i := range a {
		if !bytes.Equal(a[i].K, b[i].K) || !bytes.Equal(a[i].V, b[i].V) {
			return false
		}
	}
	return true
}

// expectRange: sorted(model) ∩ [start,end) (<= end when inclusive); nil = unbounded, non-nil (even empty) = bound.
func expectRange(kv map[string][]byte, start, end []byte, asc, inclusive bool) []KV {
	var out []KV
	for _, e := range sortedKVs(kv) {
		if start != nil && bytes.Compare(e.K, start) < 0 {
			continue
		}
		if end != nil {
			c := bytes.Compare(e.K, end)
			if c > 0 || (c == 0 && !inclusive) {
				continue
			}
		}
		out = append(out, e)
	}
	if !asc {
		for i, j := 0, len(out)-1; i < j; i, j = i+1, j-1 {
			out[i], out[j] = out[j], out[i]
		}
	}
	return out
}

func cp(b []byte) []byte {
	if b == nil {
		return nil
	}
	c := make([]byte, len(b))
	copy(c, b)
	return c
}

// rleafVersion returns the version of the leaf holding k (0 = absent).
func rleafVersion(n *RNode, k []byte) int64 {
	for n != nil && !n.leaf() {
		if bytes.Compare(k, n.Key) < 0 {
			n = n.Left
		} else {
			n = n.Right
		}
	}
	if n != nil && bytes.Equal(n.Key, k) {
		return n.Version
	}
	return 0
}

package harness

// C17: storage failures surface as errors. For one generated public call every storage-call position is
// faulted once (fault enumeration) plus drawn multi-fault sets.

import (
	"bytes"
	"encoding/json"
	"errors"
	"fmt"
	"math"
	"sort"
	"strings"
	"testing"
	"time"

	corestore "cosmossdk.io/core/store"
	"github.com/cosmos/iavl"
	dbm "github.com/cosmos/iavl/db"
	"pgregory.net/rapid"
)

type FaultCall struct {
	Kind  string  `json:"call"`
	K     []byte  `json:"k,omitempty"`
	V     []byte  `json:"v,omitempty"`
	N     int64   `json:"n,omitempty"`
	Asc   bool    `json:"asc,omitempty"`
	Cache int     `json:"cache"`
	Skip  bool    `json:"skip_fast"`
	Flush int     `json:"flush,omitempty"` // flush threshold of the faulted handle (0 = 100000: one physical write per operation)
	Multi [][]int `json:"multi,omitempty"` // additional multi-fault position sets (1-based, relative)
	// NoLoad: the call is the FIRST call on a brand-new handle (no Load before it): whatever the handle has to discover
	// about the store (latest / first version, legacy versions, index label) is discovered under the faults
	NoLoad bool `json:"no_load,omitempty"`
	// Sync: the faulted handle is opened with SyncOption(true) (commits go through WriteSync)
	Sync bool `json:"sync,omitempty"`
	// Prefixed: the faulted handle sits on a PrefixDB namespace of the store (as every SDK store does); the faults are
	// injected below the PrefixDB, so its iterators and batches have to pass the failure on
	Prefixed bool `json:"prefixed,omitempty"`
}

var c17Prefix = []byte("s/k:c17/")

// viewOf: the store as the tree sees it
func (c FaultCall) viewOf(db corestore.KVStoreWithBatch) corestore.KVStoreWithBatch {
	if c.Prefixed {
		return dbm.NewPrefixDB(db, c17Prefix)
	}
	return db
}

// imageOf: a fresh copy of the base image (under the namespace prefix if the call is prefixed)
func (c FaultCall) imageOf(base map[string][]byte) *dbm.MemDB {
	if !c.Prefixed {
		return MemDBFrom(base)
	}
	pb := make(map[string][]byte, len(base)+2)
	for k, v := range base {
		pb[string(c17Prefix)+k] = v
	}
	// foreign keys around the namespace
	pb["s/k:c17"] = []byte("outside-below")
	pb["s/k:c170"] = []byte("outside-above")
	return MemDBFrom(pb)
}

type FaultCase struct {
	Prop    string    `json:"property"`
	Kind    string    `json:"kind"` // fault
	History History   `json:"history"`
	Call    FaultCall `json:"fault_call"`
}

var readCalls = []string{"get", "has", "getwithindex", "getbyindex", "iterate", "iterator", "proof", "nonmembership_proof", "getversioned", "getimmutable_hash",
	"export", "loadversion", "statechanges", "working_get", "working_iterate", "working_iterator", "versionexists_available",
	"versioned_proof", "membership_proof"}
var writeCalls = []string{"set_save", "remove_save", "save_noop", "prune", "lvfo", "import", "dvf", "savechangeset"}

func isWriteCall(k string) bool {
	for _, w := range writeCalls {
		if w == k {
			return true
		}
	}
	return false
}

type callResult struct {
	res      string
	err      error
	panicked string
}

// execCall runs the call on handle tr. The result string captures everything the caller can observe.
func execCall(tr *iavl.MutableTree, c FaultCall, importNodes []*iavl.ExportNode) (r callResult) {
	defer func() {
		if x := recover(); x != nil {
			r.panicked = fmt.Sprint(x)
		}
	}()
	imm := func() (*iavl.ImmutableTree, error) { return tr.GetImmutable(c.N) }
	switch c.Kind {
	case "get":
		it, err := imm()
		if err != nil {
			return callResult{err: err}
		}
		v, err := it.Get(c.K)
		return callResult{res: fmt.Sprintf("%q nil=%v", v, v == nil), err: err}
	case "has":
		it, err := imm()
		if err != nil {
			return callResult{err: err}
		}
		h, err := it.Has(c.K)
		return callResult{res: fmt.Sprint(h), err: err}
	case "getwithindex":
		it, err := imm()
		if err != nil {
			return callResult{err: err}
		}
		i, v, err := it.GetWithIndex(c.K)
		return callResult{res: fmt.Sprintf("%d %q nil=%v", i, v, v == nil), err: err}
	case "getbyindex":
		it, err := imm()
		if err != nil {
			return callResult{err: err}
		}
		k, v, err := it.GetByIndex(int64(c.Cache%3) + 0) // small deterministic rank
		return callResult{res: fmt.Sprintf("%q %q", k, v), err: err}
	case "iterate":
		it, err := imm()
		if err != nil {
			return callResult{err: err}
		}
		var sb strings.Builder
		_, err = it.Iterate(func(k, v []byte) bool { fmt.Fprintf(&sb, "%q=%q,", k, v); return false })
		return callResult{res: sb.String(), err: err}
	case "iterator":
		it, err := imm()
		if err != nil {
			return callResult{err: err}
		}
		itr, err := it.Iterator(nil, nil, c.Asc)
		if err != nil {
			return callResult{err: err}
		}
		var sb strings.Builder
		for ; itr.Valid(); itr.Next() {
			fmt.Fprintf(&sb, "%q=%q,", itr.Key(), itr.Value())
		}
		if err := itr.Error(); err != nil {
			_ = itr.Close()
			return callResult{res: sb.String(), err: err}
		}
		return callResult{res: sb.String(), err: itr.Close()}
	case "proof", "nonmembership_proof":
		it, err := imm()
		if err != nil {
			return callResult{err: err}
		}
		if it.Size() == 0 {
			return callResult{res: "empty"}
		}
		p, err := it.GetProof(c.K)
		if err != nil {
			return callResult{err: err}
		}
		b, _ := p.Marshal()
		return callResult{res: fmt.Sprintf("%x", b)}
	case "versioned_proof":
		// (proofs are defined for non-empty versions only - C03; GetMembershipProof of an empty tree dereferences a nil root)
		if it, err := imm(); err != nil {
			return callResult{err: err}
		} else if it.Size() == 0 {
			return callResult{res: "empty"}
		}
		p, err := tr.GetVersionedProof(c.K, c.N)
		if err != nil {
			return callResult{err: err}
		}
		b, _ := p.Marshal()
		return callResult{res: fmt.Sprintf("%x", b)}
	case "membership_proof":
		it, err := imm()
		if err != nil {
			return callResult{err: err}
		}
		if it.Size() == 0 {
			return callResult{res: "empty"}
		}
		p, err := it.GetMembershipProof(c.K)
		if err != nil {
			return callResult{err: err}
		}
		b, _ := p.Marshal()
		return callResult{res: fmt.Sprintf("%x", b)}
	case "getversioned":
		v, err := tr.GetVersioned(c.K, c.N)
		return callResult{res: fmt.Sprintf("%q nil=%v", v, v == nil), err: err}
	case "getimmutable_hash":
		it, err := imm()
		if err != nil {
			return callResult{err: err}
		}
		return callResult{res: fmt.Sprintf("%x size=%d", it.Hash(), it.Size())}
	case "export":
		it, err := imm()
		if err != nil {
			return callResult{err: err}
		}
		if it.Size() == 0 {
			return callResult{res: "empty"}
		}
		ex, err := it.Export()
		if err != nil {
			return callResult{err: err}
		}
		defer ex.Close()
		var sb strings.Builder
		for {
			n, err := ex.Next()
			if errors.Is(err, iavl.ErrorExportDone) {
				return callResult{res: sb.String()}
			}
			if err != nil {
				return callResult{res: sb.String(), err: err}
			}
			fmt.Fprintf(&sb, "%q=%q@%d^%d,", n.Key, n.Value, n.Version, n.Height)
		}
	case "loadversion":
		lv, err := tr.LoadVersion(c.N)
		if err != nil {
			return callResult{err: err}
		}
		// what the handle serves after a load that reported success (the load may have (re)built the fast index)
		var sb strings.Builder
		if _, err := tr.Iterate(func(k, v []byte) bool { fmt.Fprintf(&sb, "%q=%q,", k, v); return false }); err != nil {
			return callResult{err: err}
		}
		g, err := tr.Get(c.K)
		if err != nil {
			return callResult{err: err}
		}
		// ... and what it says about the version range
		glv, err := tr.GetLatestVersion()
		if err != nil {
			return callResult{err: err}
		}
		return callResult{res: fmt.Sprintf("%d %x %s get=%q nil=%v exists=%v available=%v latest=%d", lv, tr.Hash(), sb.String(), g, g == nil, tr.VersionExists(c.N), tr.AvailableVersions(), glv)}
	case "statechanges":
		it, err := imm()
		if err != nil {
			return callResult{err: err}
		}
		var sb strings.Builder
		err = it.TraverseStateChanges(0, math.MaxInt64, func(v int64, cs *iavl.ChangeSet) error {
			fmt.Fprintf(&sb, "%d:%v;", v, fmtChangeSet(cs))
			return nil
		})
		return callResult{res: sb.String(), err: err}
	case "working_get":
		v, err := tr.Get(c.K)
		return callResult{res: fmt.Sprintf("%q nil=%v", v, v == nil), err: err}
	case "working_iterate":
		var sb strings.Builder
		_, err := tr.Iterate(func(k, v []byte) bool { fmt.Fprintf(&sb, "%q=%q,", k, v); return false })
		return callResult{res: sb.String(), err: err}
	case "working_iterator":
		itr, err := tr.Iterator(nil, nil, c.Asc)
		if err != nil {
			return callResult{err: err}
		}
		var sb strings.Builder
		for ; itr.Valid(); itr.Next() {
			fmt.Fprintf(&sb, "%q=%q,", itr.Key(), itr.Value())
		}
		if err := itr.Error(); err != nil {
			_ = itr.Close()
			return callResult{res: sb.String(), err: err}
		}
		return callResult{res: sb.String(), err: itr.Close()}
	case "versionexists_available":
		lv, err := tr.GetLatestVersion()
		return callResult{res: fmt.Sprintf("%v %v %d", tr.VersionExists(c.N), tr.AvailableVersions(), lv), err: err}
	// ---- writes
	case "set_save":
		if _, err := tr.Set(c.K, c.V); err != nil {
			return callResult{err: err}
		}
		h, v, err := tr.SaveVersion()
		return callResult{res: fmt.Sprintf("%x %d", h, v), err: err}
	case "remove_save":
		val, rm, err := tr.Remove(c.K)
		if err != nil {
			return callResult{err: err}
		}
		h, v, err := tr.SaveVersion()
		return callResult{res: fmt.Sprintf("%q %v %x %d", val, rm, h, v), err: err}
	case "save_noop":
		h, v, err := tr.SaveVersion()
		return callResult{res: fmt.Sprintf("%x %d", h, v), err: err}
	case "prune":
		return callResult{res: "done", err: tr.DeleteVersionsTo(c.N)}
	case "lvfo":
		err := tr.LoadVersionForOverwriting(c.N)
		if err != nil {
			return callResult{err: err}
		}
		return callResult{res: fmt.Sprintf("%x", tr.Hash())}
	case "dvf":
		return callResult{res: "done", err: tr.DeleteVersionsFrom(c.N + 1)}
	case "savechangeset":
		cs := &iavl.ChangeSet{}
		if c.Asc {
			cs.Pairs = append(cs.Pairs, &iavl.KVPair{Delete: true, Key: c.K})
		} else {
			val := c.V
			if val == nil {
				val = []byte{}
			}
			cs.Pairs = append(cs.Pairs, &iavl.KVPair{Key: c.K, Value: val})
		}
		v, err := tr.SaveChangeSet(cs)
		if err != nil {
			return callResult{err: err}
		}
		return callResult{res: fmt.Sprintf("%d %x", v, tr.Hash())}
	case "import":
		err := ImportAll(tr, c.N, importNodes, false)
		if err != nil {
			return callResult{err: err}
		}
		return callResult{res: fmt.Sprintf("%x", tr.Hash())}
	}
	return callResult{err: fmt.Errorf("harness: unknown call %q", c.Kind)}
}

type faultStats struct {
	positions, errored, same, multi int
	continued                       int // failed prunes after which the same handle committed again and later versions were re-read
	kinds                           map[string]int
}

// known F10 sub-cases still open (swallowed errors that are recorded, not repaired)
func knownF10(call string, obs string) string {
	if !Open("F10") {
		return ""
	}
	return ""
}

func runFault(c FaultCase) (v *Violation, st faultStats) {
	st.kinds = map[string]int{}
	viol := func(obs, f string, a ...any) *Violation {
		return &Violation{Prop: "C17", Obs: obs, Msg: fmt.Sprintf(f, a...)}
	}
	w, err := NewWorld("C17", "mem", c.History.Cfg, Observers{Light: true})
	if err != nil {
		return viol("harness", "%v", err), st
	}
	defer w.Close()
	w.rememberInitialCfg()
	w.trackIndex(Op{Kind: "reopen"})
	for _, op := range c.History.Ops {
		if x := w.Apply(op); x != nil {
			x.Obs = "prefix." + x.Obs
			return x, st
		}
		w.trackIndex(op)
	}
	if w.Dirty {
		w.Tree.Rollback()
		w.setWorkingFrom(w.Cur)
	}
	base := DumpDB(w.DB)
	pre := snapOf(w)
	call := c.Call
	if call.NoLoad && !call.Skip && w.IndexLabel != w.Latest {
		call.Skip = true // (see genFaultCall: an index-enabled handle that never loads would serve a stale index)
	}
	var importNodes []*iavl.ExportNode
	if call.Kind == "import" {
		it, err := w.Tree.GetImmutable(call.N)
		if err != nil {
			return viol("harness", "%v", err), st
		}
		if it.Size() > 0 {
			if importNodes, err = ExportAll(it, false); err != nil {
				return viol("harness", "%v", err), st
			}
		}
		base = map[string][]byte{} // imports go to an empty store
		pre = modelSnap{vers: map[int64]*VerState{}}
	}
	flush := 100000
	if call.Flush > 0 {
		flush = call.Flush
	}
	opts := []iavl.Option{iavl.FlushThresholdOption(flush), iavl.SyncOption(call.Sync)}
	if w.Cfg.InitVer > 0 && call.Kind != "import" {
		opts = append(opts, iavl.InitialVersionOption(w.Cfg.InitVer))
	}
	// one attempt: fresh image, cold handle, faults armed after Load
	var lastTree *iavl.MutableTree // the handle of the most recent attempt (for the continuation after a failed prune)
	attempt := func(fail []int) (callResult, *TraceDB, *dbm.MemDB, error) {
		img := call.imageOf(base)
		tdb := NewTraceDBOn(img)
		tdb.NoJournal = true
		tr := iavl.NewMutableTree(call.viewOf(tdb), call.Cache, call.Skip, iavl.NewNopLogger(), opts...)
		if call.Kind != "loadversion" && call.Kind != "import" && !call.NoLoad {
			if _, err := tr.Load(); err != nil {
				return callResult{}, nil, nil, err
			}
		}
		tdb.ResetCounters()
		if len(fail) > 0 {
			tdb.FailAt = map[int]bool{}
			for _, k := range fail {
				tdb.FailAt[k] = true
			}
		}
		r := execCall(tr, call, importNodes)
		tdb.FailAt = nil
		lastTree = tr
		return r, tdb, img, nil
	}
	ref, tdb0, _, err := attempt(nil)
	if err != nil {
		return viol("harness", "fault-free Load: %v", err), st
	}
	if ref.panicked != "" {
		return viol("faultfree.panic", "%s panics without any fault: %s", call.Kind, ref.panicked), st
	}
	n := tdb0.Calls()
	sets := make([][]int, 0, n+len(call.Multi))
	for k := 1; k <= n; k++ {
		sets = append(sets, []int{k})
	}
	for _, m := range call.Multi {
		var s []int
		for _, k := range m {
			if n > 0 {
				s = append(s, (k%n)+1)
			}
		}
		if len(s) > 0 {
			sets = append(sets, s)
		}
	}
	for _, fs := range sets {
		r, tdb, img, err := attempt(fs)
		if err != nil {
			return viol("harness", "Load: %v", err), st
		}
		st.positions++
		if len(fs) > 1 {
			st.multi++
		}
		fired := len(tdb.FailLog) > 0
		for _, f := range tdb.FailLog {
			st.kinds[f[strings.Index(f, ":")+1:]]++
		}
		where := fmt.Sprintf("%s (cache=%d fast=%v) with storage call(s) %v failing %v", mustJSON(call), call.Cache, !call.Skip, fs, tdb.FailLog)
		if r.panicked != "" {
			return viol("panic."+call.Kind, "%s panics: %s", where, r.panicked), st
		}
		if !fired {
			// the armed position was not reached (execution diverged earlier by an earlier fault of a multi set)
			if r.err == nil && r.res != ref.res {
				return viol("divergence."+call.Kind, "%s: no fault fired but the result differs: %q vs %q", where, r.res, ref.res), st
			}
			continue
		}
		if r.err != nil {
			st.errored++
		} else {
			if r.res != ref.res {
				return viol("swallowed."+call.Kind, "%s returns %q with a nil error; the fault-free result is %q", where, r.res, ref.res), st
			}
			wroteFail := false
			for _, f := range tdb.FailLog {
				k := f[strings.Index(f, ":")+1:]
				if k == "BatchSet" || k == "BatchDelete" || k == "BatchWrite" || k == "Set" || k == "Delete" {
					wroteFail = true
				}
			}
			if wroteFail && isWriteCall(call.Kind) {
				return viol("write_reported_ok."+call.Kind, "%s reports success although a storage write failed", where), st
			}
			st.same++
		}
		// the store that is left behind reopens (faults off) to the state before or after the operation
		if isWriteCall(call.Kind) && flush >= 100000 {
			if x := reopenAfterFault(img, pre, call, r); x != nil {
				x.Msg = where + ": " + x.Msg
				return x, st
			}
		}
		// a deletion of old versions that FAILED, and the application carries on with the same handle (the storage is
		// healthy again): whatever the failed call left staged must not damage a version it was not deleting - the next
		// commit on that handle writes the staged operations out (C04: later versions are never altered)
		if call.Kind == "prune" && r.err != nil && !call.NoLoad && flush >= 100000 {
			if x := continueAfterFailedPrune(lastTree, img, pre, call); x != nil {
				x.Msg = where + ": " + x.Msg
				return x, st
			}
			st.continued++
		}
	}
	return nil, st
}

// reopenAfterFault: with flush threshold 100000 every operation is a single physical batch write (plus the index
// label/rebuild of LoadVersionForOverwriting), so the store must be loadable and hold a consistent version range.
func reopenAfterFault(img *dbm.MemDB, pre modelSnap, call FaultCall, r callResult) (v *Violation) {
	defer func() {
		if x := recover(); x != nil {
			v = &Violation{Prop: "C17", Obs: "reopen.panic", Msg: fmt.Sprint(x)}
		}
	}()
	tr := iavl.NewMutableTree(call.viewOf(img), 0, true, iavl.NewNopLogger())
	lv, err := tr.Load()
	if err != nil {
		return &Violation{Prop: "C17", Obs: "reopen.load", Msg: fmt.Sprintf("store left behind by the failed %s cannot be loaded: %v", call.Kind, err)}
	}
	av := tr.AvailableVersions()
	// every listed version must be readable; versions of the state before that the op does not delete must be intact
	for _, x := range av {
		ver := int64(x)
		it, err := tr.GetImmutable(ver)
		if err != nil {
			return &Violation{Prop: "C17", Obs: "reopen.listed_unreadable", Msg: fmt.Sprintf("after the failed %s version %d is listed but GetImmutable fails: %v", call.Kind, ver, err)}
		}
		if vs, ok := pre.vers[ver]; ok && !((call.Kind == "lvfo" || call.Kind == "dvf") && ver > call.N) {
			if string(it.Hash()) != string(rhash(vs.Root, 0, false)) {
				return &Violation{Prop: "C17", Obs: "reopen.hash", Msg: fmt.Sprintf("after the failed %s version %d has hash %x want %x", call.Kind, ver, it.Hash(), rhash(vs.Root, 0, false))}
			}
		}
		n := 0
		_, err = it.Iterate(func(k, v []byte) bool { n++; return false })
		if err != nil || int64(n) != it.Size() {
			return &Violation{Prop: "C17", Obs: "reopen.contents", Msg: fmt.Sprintf("after the failed %s version %d iterates %d of %d keys (%v)", call.Kind, ver, n, it.Size(), err)}
		}
	}
	switch call.Kind {
	case "set_save", "remove_save", "save_noop", "savechangeset":
		if lv != pre.latest && lv != pre.latest+1 && !(pre.latest == 0) {
			return &Violation{Prop: "C17", Obs: "reopen.range", Msg: fmt.Sprintf("after the failed commit the latest version is %d (was %d)", lv, pre.latest)}
		}
		if r.err == nil && lv == pre.latest && pre.latest != 0 {
			return &Violation{Prop: "C17", Obs: "reopen.lost_commit", Msg: fmt.Sprintf("commit reported success but the latest version is still %d", lv)}
		}
	case "prune":
		if lv != pre.latest {
			return &Violation{Prop: "C17", Obs: "reopen.range", Msg: fmt.Sprintf("after the failed DeleteVersionsTo the latest version is %d (was %d)", lv, pre.latest)}
		}
	}
	return nil
}

// continueAfterFailedPrune: Set + SaveVersion on the handle whose DeleteVersionsTo(n) just failed; if that commit is
// accepted, every version above n (and the new one) must be intact when read through a fresh handle.
func continueAfterFailedPrune(tr *iavl.MutableTree, img *dbm.MemDB, pre modelSnap, call FaultCall) (v *Violation) {
	defer func() {
		if x := recover(); x != nil {
			v = &Violation{Prop: "C17", Obs: "continue.panic", Msg: fmt.Sprintf("continuing on the handle after the failed DeleteVersionsTo(%d) panics: %v", call.N, x)}
		}
	}()
	if _, err := tr.Set([]byte("zz-after-failed-prune"), []byte("1")); err != nil {
		return nil // (no claim: the handle refuses further work)
	}
	if _, _, err := tr.SaveVersion(); err != nil {
		return nil
	}
	fresh := iavl.NewMutableTree(call.viewOf(img), 0, true, iavl.NewNopLogger())
	if _, err := fresh.Load(); err != nil {
		return &Violation{Prop: "C17", Obs: "continue.load", Msg: fmt.Sprintf("DeleteVersionsTo(%d) failed, the next commit on the same handle succeeded, and the store no longer loads: %v", call.N, err)}
	}
	for ver := call.N + 1; ver <= pre.latest; ver++ {
		vs, ok := pre.vers[ver]
		if !ok {
			continue
		}
		it, err := fresh.GetImmutable(ver)
		if err != nil {
			return &Violation{Prop: "C17", Obs: "continue.later_version", Msg: fmt.Sprintf("DeleteVersionsTo(%d) failed, the next commit on the same handle succeeded: version %d (not being deleted) cannot be obtained: %v", call.N, ver, err)}
		}
		if !bytes.Equal(it.Hash(), rhash(vs.Root, 0, false)) {
			return &Violation{Prop: "C17", Obs: "continue.later_version", Msg: fmt.Sprintf("DeleteVersionsTo(%d) failed, next commit succeeded: version %d hash %x want %x", call.N, ver, it.Hash(), rhash(vs.Root, 0, false))}
		}
		var got []KV
		_, err = it.Iterate(func(k, val []byte) bool { got = append(got, KV{cp(k), cp(val)}); return false })
		if err != nil || !eqKVs(got, sortedKVs(vs.KV)) {
			return &Violation{Prop: "C17", Obs: "continue.later_version", Msg: fmt.Sprintf("DeleteVersionsTo(%d) failed, the next commit on the same handle succeeded: version %d (not being deleted) reads %s,%v want %s", call.N, ver, fmtKVs(got), err, fmtKVs(sortedKVs(vs.KV)))}
		}
	}
	return nil
}

var faultProfile = &Profile{MinSteps: 6, MaxSteps: 28,
	W: weights(map[string]int{"set": 36, "remove": 10, "save": 20, "prune": 4, "prune_refuse": 0, "reopen": 4, "lvfo": 1, "dvf": 1, "rollback": 1, "setnil": 0})}

func genFaultCall(t *rapid.T, w *World) FaultCall {
	c := FaultCall{Cache: rapid.SampledFrom([]int{0, 0, 2, 1000}).Draw(t, "fcache"), Skip: rapid.Bool().Draw(t, "fskip"), Asc: rapid.Bool().Draw(t, "fasc")}
	kinds := append([]string{}, readCalls...)
	if w.Latest > 0 {
		kinds = append(kinds, writeCalls...)
		kinds = append(kinds, writeCalls...)
		kinds = append(kinds, "iterate", "export", "getversioned", "proof", "get") // weight
	} else {
		kinds = []string{"working_get", "save_noop", "set_save", "versionexists_available"}
	}
	c.Kind = rapid.SampledFrom(kinds).Draw(t, "fkind")
	if w.Latest > 0 {
		c.N = rapid.Int64Range(w.First, w.Latest).Draw(t, "fver")
	}
	kv := w.WKV
	if vs, ok := w.Vers[c.N]; ok {
		kv = vs.KV
	}
	present, absent := probeKeys(kv)
	switch c.Kind {
	case "nonmembership_proof":
		c.K = []byte(rapid.SampledFrom(absent).Draw(t, "fk"))
	case "set_save":
		c.K, c.V = genKey(t, w.WKV), genValue(t)
	case "remove_save":
		c.K = genRemoveKey(t, w.WKV)
	case "prune":
		if w.Latest-1 < w.First {
			c.Kind = "save_noop"
		} else {
			c.N = rapid.Int64Range(w.First, w.Latest-1).Draw(t, "fprune")
		}
	case "lvfo":
		if Open("F3") && c.Skip && w.EverFast {
			c.Skip = false
		}
	default:
		if len(present) > 0 && rapid.IntRange(0, 3).Draw(t, "fpresent") > 0 {
			c.K = []byte(rapid.SampledFrom(present).Draw(t, "fk"))
		} else {
			c.K = []byte(rapid.SampledFrom(absent).Draw(t, "fk"))
		}
	}
	switch c.Kind {
	case "get", "has", "getwithindex", "getbyindex", "iterate", "iterator", "proof", "nonmembership_proof", "getversioned", "getimmutable_hash",
		"export", "statechanges", "versioned_proof", "membership_proof", "prune", "dvf", "lvfo":
		// (not versionexists_available: VersionExists / AvailableVersions have no error result, so a fault met inside them is
		// outside the property; what they say AFTER a load that succeeded under a fault is part of the loadversion call)
		c.NoLoad = rapid.IntRange(0, 2).Draw(t, "noLoad") == 0
		if c.NoLoad && !c.Skip && w.IndexLabel != w.Latest {
			// the persisted index is stale (the last commits were made with the index disabled) and it is Load that notices
			// and rebuilds it: a handle with the index ENABLED that reads without ever loading serves the stale index, so
			// the fault-free result itself would be wrong (not a storage-failure matter; see DESIGN section 9)
			c.Skip = true
		}
	}
	c.Sync = rapid.IntRange(0, 3).Draw(t, "fsync") == 0
	c.Prefixed = rapid.IntRange(0, 3).Draw(t, "fprefixed") == 0
	if isWriteCall(c.Kind) && rapid.IntRange(0, 5).Draw(t, "smallFlush") == 0 {
		// automatic flushes inside the operation: only the error-vs-success oracle applies (the store left behind by a
		// failed multi-batch operation is the F7 family)
		c.Flush = rapid.SampledFrom([]int{150, 300}).Draw(t, "fflush")
	}
	if c.Kind == "import" && c.N >= 1<<20 {
		c.Kind = "export" // the importer allocates a nonce table of size version+1
	}
	nm := rapid.IntRange(0, 3).Draw(t, "nmulti")
	for i := 0; i < nm; i++ {
		c.Multi = append(c.Multi, rapid.SliceOfN(rapid.IntRange(0, 400), 2, 3).Draw(t, "multi"))
	}
	return c
}

func TestC17(t *testing.T) {
	rapid.Check(t, func(rt *rapid.T) {
		cfg := genCfg(rt, false)
		cfg.Flush = 100000
		cfg.InitVer = genInitVer(rt)
		if cfg.InitVer > 1<<20 {
			cfg.InitVer = 7
		}
		w, err := NewWorld("C17", "mem", cfg, Observers{Light: true})
		if err != nil {
			rt.Fatalf("harness: %v", err)
		}
		w.rememberInitialCfg()
		w.trackIndex(Op{Kind: "reopen"})
		steps := rapid.IntRange(faultProfile.MinSteps, faultProfile.MaxSteps).Draw(rt, "steps")
		p := *faultProfile
		p.KeepFlush = true
		for i := 0; i < steps; i++ {
			op := GenOp(rt, w, &p)
			if x := w.Apply(op); x != nil {
				w.Close()
				reportViolation(rt, "C17", FaultCase{Prop: "C17", Kind: "fault", History: w.History()}, x)
			}
			w.trackIndex(op)
		}
		call := genFaultCall(rt, w)
		hist := w.History()
		w.Close()
		c := FaultCase{Prop: "C17", Kind: "fault", History: hist, Call: call}
		v, st := runFault(c)
		if v != nil {
			if id := knownF10(call.Kind, v.Obs); id != "" {
				KnownHit("C17", id)
				return
			}
			reportViolation(rt, "C17", c, v)
		}
		Count("C17", "fault_positions", st.positions)
		Count("C17", "fault_reported_as_error", st.errored)
		Count("C17", "fault_irrelevant_same_result", st.same)
		Count("C17", "multi_fault_sets", st.multi)
		Count("C17", "failed_prune_then_commit_on_the_same_handle", st.continued)
		ks := make([]string, 0, len(st.kinds))
		for k := range st.kinds {
			ks = append(ks, k)
		}
		sort.Strings(ks)
		for _, k := range ks {
			Count("C17", "faulted_"+k, st.kinds[k])
		}
		RecordCase("C17", c, st.positions >= 2 && st.errored >= 1, map[string]bool{"call_" + call.Kind: true, "write_call": isWriteCall(call.Kind), "first_call_on_a_new_handle": call.NoLoad, "sync_option": call.Sync, "prefixed_store": call.Prefixed})
	})
}

// ---------------------------------------------------------------- multi-batch import with a failing batch write

type BigImportFault struct {
	Prop   string `json:"property"`
	Kind   string `json:"kind"` // big_import_fault
	Leaves int    `json:"leaves"`
	Skip   bool   `json:"skip_fast"`
}

var errImportHang = errors.New("import did not return")

// bigImportWatchdog: at least 20 s and at least 50 times what the fault-free import of the same stream just took
var bigImportWatchdog = 20 * time.Second

func runBigImportFault(c BigImportFault) (v *Violation, positions int) {
	defer func() {
		if r := recover(); r != nil {
			v = &Violation{Prop: "C17", Obs: "bigimport.panic", Msg: fmt.Sprint(r)}
		}
	}()
	src := iavl.NewMutableTree(dbm.NewMemDB(), 0, true, iavl.NewNopLogger())
	for i := 0; i < c.Leaves; i++ {
		_, _ = src.Set([]byte(fmt.Sprintf("key-%06d", (i*7919)%1000003)), []byte("v"))
	}
	if _, _, err := src.SaveVersion(); err != nil {
		return &Violation{Prop: "C17", Obs: "harness", Msg: err.Error()}, 0
	}
	it, _ := src.GetImmutable(1)
	nodes, err := ExportAll(it, false)
	if err != nil {
		return &Violation{Prop: "C17", Obs: "harness", Msg: err.Error()}, 0
	}
	attempt := func(nth int) (error, *TraceDB) {
		tdb := NewTraceDB()
		tdb.NoJournal = true
		if nth > 0 {
			tdb.FailKindNth = map[string]int{"BatchWrite": nth}
		}
		tr := iavl.NewMutableTree(tdb, 0, c.Skip, iavl.NewNopLogger())
		// the import runs under a watchdog: a failed background write must come back as an error from
		// Add/Commit and Close must return; an importer that blocks for ever never surfaces the fault.
		// (limit: 50 times the duration of the fault-free import of the same stream, at least 20 s.)
		type res struct {
			err error
			pan any
		}
		done := make(chan res, 1)
		go func() {
			var r res
			defer func() {
				if p := recover(); p != nil {
					r.pan = p
				}
				done <- r
			}()
			r.err = ImportAll(tr, 1, nodes, false)
		}()
		select {
		case r := <-done:
			tdb.FailKindNth = nil
			if r.pan != nil {
				panic(r.pan)
			}
			return r.err, tdb
		case <-time.After(bigImportWatchdog):
			return errImportHang, tdb
		}
	}
	bigImportWatchdog = 10 * time.Minute // the fault-free run is only measured
	start := time.Now()
	err0, t0 := attempt(0)
	bigImportWatchdog = 20 * time.Second
	if d := 50 * time.Since(start); d > bigImportWatchdog {
		bigImportWatchdog = d
	}
	if err0 != nil {
		return &Violation{Prop: "C17", Obs: "bigimport.faultfree", Msg: err0.Error()}, 0
	}
	nw := t0.Kinds["BatchWrite"]
	for k := 1; k <= nw; k++ {
		positions++
		err, tdb := attempt(k)
		if err == errImportHang {
			return &Violation{Prop: "C17", Obs: "bigimport.hang", Msg: fmt.Sprintf("import of %d nodes with batch write #%d of %d failing: Add/Commit/Close did not return within %s", len(nodes), k, nw, bigImportWatchdog)}, positions
		}
		if len(tdb.FailLog) == 0 {
			continue
		}
		if err != nil {
			continue // reported: fine
		}
		// reported as successful although a physical write failed
		return &Violation{Prop: "C17", Obs: "write_reported_ok.big_import", Msg: fmt.Sprintf("import of %d nodes reports success although batch write #%d of %d failed (%v)", len(nodes), k, nw, tdb.FailLog)}, positions
	}
	return nil, positions
}

func TestC17BigImport(t *testing.T) {
	rapid.Check(t, func(rt *rapid.T) {
		c := BigImportFault{Prop: "C17", Kind: "big_import_fault", Leaves: rapid.IntRange(5001, 5300).Draw(rt, "leaves"), Skip: rapid.Bool().Draw(rt, "skip")}
		if rapid.IntRange(0, 3).Draw(rt, "two") == 0 {
			c.Leaves = rapid.IntRange(10001, 10200).Draw(rt, "leaves2") // two background flushes
		}
		v, n := runBigImportFault(c)
		if v != nil {
			reportViolation(rt, "C17", c, v)
		}
		Count("C17", "fault_positions", n)
		Count("C17", "big_import_fault_cases", 1)
		RecordCase("C17", c, n >= 2, map[string]bool{"call_big_import": true, "write_call": true})
	})
}

func init() {
	customReplayers["C17"] = func(raw json.RawMessage) (*Violation, bool) {
		var head struct {
			Kind string `json:"kind"`
		}
		_ = json.Unmarshal(raw, &head)
		if head.Kind == "big_import_fault" {
			var c BigImportFault
			if err := json.Unmarshal(raw, &c); err != nil {
				return &Violation{Prop: "C17", Obs: "harness", Msg: err.Error()}, true
			}
			v, _ := runBigImportFault(c)
			return v, true
		}
		var c FaultCase
		if err := json.Unmarshal(raw, &c); err != nil {
			return &Violation{Prop: "C17", Obs: "harness", Msg: err.Error()}, true
		}
		v, _ := runFault(c)
		return v, true
	}
}

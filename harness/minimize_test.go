package harness

// Delta debugging of failing cases that carry an op list (rapid shrinks them poorly: each step was drawn from a
// state-dependent generator). A candidate is kept if it fails at the same observer class (digits masked). The run
// functions used here already tolerate the open known findings of their property, so a candidate cannot "turn into"
// a listed finding.

import (
	"encoding/json"
	"regexp"
	"time"
)

var digitsRE = regexp.MustCompile(`\d+`)

func obsClass(v *Violation) string {
	if v == nil {
		return ""
	}
	return digitsRE.ReplaceAllString(v.Obs, "#")
}

func ddmin[T any](items []T, fails func([]T) *Violation, deadline time.Time) ([]T, *Violation, int) {
	tries := 0
	var best *Violation
	n := len(items) / 2
	if n < 1 {
		n = 1
	}
	for len(items) > 0 && time.Now().Before(deadline) {
		improved := false
		for end := len(items); end > 0 && time.Now().Before(deadline); {
			start := end - n
			if start < 0 {
				start = 0
			}
			cand := append(append([]T{}, items[:start]...), items[end:]...)
			tries++
			if cv := fails(cand); cv != nil {
				items, best, improved = cand, cv, true
			}
			end = start
		}
		if n > 1 {
			n /= 2
		} else if !improved {
			break
		}
	}
	return items, best, tries
}

// customMinimizers: property -> (raw case, deadline) -> (minimized case, violation, ops before, ops after, replays); ok=false = not handled
var customMinimizers = map[string]func(raw json.RawMessage, deadline time.Time) (c any, v *Violation, before, after, tries int, ok bool){}

func init() {
	customMinimizers["C17"] = func(raw json.RawMessage, deadline time.Time) (any, *Violation, int, int, int, bool) {
		var c FaultCase
		if json.Unmarshal(raw, &c) != nil || c.Kind != "fault" {
			return nil, nil, 0, 0, 0, false
		}
		v0, _ := runFault(c)
		if v0 == nil {
			return nil, nil, 0, 0, 0, false
		}
		cls, n0 := obsClass(v0), len(c.History.Ops)
		ops, best, tries := ddmin(c.History.Ops, func(ops []Op) *Violation {
			x := c
			x.History.Ops = ops
			if v, _ := runFault(x); v != nil && obsClass(v) == cls {
				return v
			}
			return nil
		}, deadline)
		if best == nil {
			best = v0
		}
		c.History.Ops = ops
		return c, best, n0, len(ops), tries, true
	}
	customMinimizers["C05"] = func(raw json.RawMessage, deadline time.Time) (any, *Violation, int, int, int, bool) {
		var c CrashCase
		if json.Unmarshal(raw, &c) != nil || c.Kind != "crash" {
			return nil, nil, 0, 0, 0, false
		}
		v0, _ := runCrash(c)
		if v0 == nil {
			return nil, nil, 0, 0, 0, false
		}
		cls, n0 := obsClass(v0), len(c.History.Ops)
		ops, best, tries := ddmin(c.History.Ops, func(ops []Op) *Violation {
			x := c
			x.History.Ops = ops
			if v, _ := runCrash(x); v != nil && obsClass(v) == cls {
				return v
			}
			return nil
		}, deadline)
		if best == nil {
			best = v0
		}
		c.History.Ops = ops
		return c, best, n0, len(ops), tries, true
	}
	customMinimizers["C16"] = func(raw json.RawMessage, deadline time.Time) (any, *Violation, int, int, int, bool) {
		var c C16Case
		if json.Unmarshal(raw, &c) != nil || c.Kind != "legacy" {
			return nil, nil, 0, 0, 0, false
		}
		run := func(x C16Case) *Violation {
			v, w, _, err := runC16(x, nil)
			if err != nil || v == nil {
				return nil
			}
			if id := knownCommon(w, v); id != "" && Open(id) {
				return nil
			}
			return v
		}
		v0 := run(c)
		if v0 == nil {
			return nil, nil, 0, 0, 0, false
		}
		cls, n0 := obsClass(v0), len(c.Ops)
		ops, best, tries := ddmin(c.Ops, func(ops []Op) *Violation {
			x := c
			x.Ops = ops
			if v := run(x); v != nil && obsClass(v) == cls {
				return v
			}
			return nil
		}, deadline)
		if best == nil {
			best = v0
		}
		c.Ops = ops
		return c, best, n0, len(ops), tries, true
	}
	customMinimizers["C18"] = func(raw json.RawMessage, deadline time.Time) (any, *Violation, int, int, int, bool) {
		var c C18Case
		if json.Unmarshal(raw, &c) != nil || len(c.Ops) == 0 {
			return nil, nil, 0, 0, 0, false
		}
		v0, _ := runC18(c)
		if v0 == nil {
			return nil, nil, 0, 0, 0, false
		}
		cls, n0 := obsClass(v0), len(c.Ops)
		ops, best, tries := ddmin(c.Ops, func(ops []KOp) *Violation {
			x := c
			x.Ops = ops
			if v, _ := runC18(x); v != nil && obsClass(v) == cls {
				return v
			}
			return nil
		}, deadline)
		if best == nil {
			best = v0
		}
		c.Ops = ops
		return c, best, n0, len(ops), tries, true
	}
	customMinimizers["C11"] = func(raw json.RawMessage, deadline time.Time) (any, *Violation, int, int, int, bool) {
		var c C11Case
		if json.Unmarshal(raw, &c) != nil || len(c.Ops) == 0 {
			return nil, nil, 0, 0, 0, false
		}
		v0, _ := runC11(c)
		if v0 == nil {
			return nil, nil, 0, 0, 0, false
		}
		cls, n0 := obsClass(v0), len(c.Ops)
		ops, best, tries := ddmin(c.Ops, func(ops []C11Op) *Violation {
			x := c
			x.Ops = ops
			if v, _ := runC11(x); v != nil && obsClass(v) == cls {
				return v
			}
			return nil
		}, deadline)
		if best == nil {
			best = v0
		}
		c.Ops = ops
		return c, best, n0, len(ops), tries, true
	}
}

package harness

// C09: a twin tree on a fresh store that only ever executes the surviving history. After a rollback
// to version v the twin is rebuilt from the ops that produced versions <= v (plus the deletions of old
// versions and the configuration the live handle has now); from then on every op goes to both and the
// two stores are compared raw: nothing of the erased versions may be left anywhere.

import (
	"bytes"
	"encoding/binary"
	"fmt"
	"sort"
)

type twinState struct {
	survivors []Op           // ops that define the surviving history
	commitPos map[int64]int  // version -> len(survivors) right after its commit
	twin      *World
	rebuilt   int
}

func (w *World) twinInit() *twinState {
	return &twinState{commitPos: map[int64]int{}}
}

func isMutating(op Op) bool {
	switch op.Kind {
	case "read", "iter":
		return false
	}
	return true
}

func (ts *twinState) newTwin(w *World) (*World, *Violation) {
	tw, err := NewWorld(w.Prop, "mem", w.icfg, Observers{Light: true})
	if err != nil {
		return nil, w.viol("harness", "twin: %v", err)
	}
	tw.rememberInitialCfg()
	tw.trackIndex(Op{Kind: "reopen"})
	return tw, nil
}

// After is called after op was applied to the main world.
func (ts *twinState) After(w *World, op Op, prevLatest int64) *Violation {
	if !isMutating(op) {
		return nil
	}
	rolledBack := (op.Kind == "lvfo" || op.Kind == "dvf") && op.N < prevLatest
	if ts.twin == nil || rolledBack {
		if ts.twin != nil {
			ts.twin.Close()
		}
		if rolledBack {
			ts.survivors = append([]Op{}, ts.survivors[:ts.commitPos[op.N]]...)
			for v := range ts.commitPos {
				if v > op.N {
					delete(ts.commitPos, v)
				}
			}
			// deletions of old versions carried out in the erased future stay in force
			ts.survivors = append(ts.survivors, Op{Kind: "prune", N: w.First - 1})
			// the live handle's configuration: a fresh open of the surviving store at its latest version
			c := w.Cfg
			ts.survivors = append(ts.survivors, Op{Kind: "reopen", Cfg: &c})
			ts.rebuilt++
			w.Labels["twin_rebuilt_after_rollback"] = true
		} else {
			ts.survivors = append(ts.survivors, op)
		}
		tw, v := ts.newTwin(w)
		if v != nil {
			return v
		}
		ts.twin = tw
		for _, o := range ts.survivors {
			if o.Kind == "prune" && (o.N < tw.First || o.N >= tw.Latest) {
				continue // nothing to delete on the twin (yet)
			}
			if x := tw.Apply(o); x != nil {
				return w.viol("twin.replay", "surviving history fails on the twin at %s: %s", o, x.Msg)
			}
			tw.trackIndex(o)
		}
	} else {
		ts.survivors = append(ts.survivors, op)
		if x := ts.twin.Apply(op); x != nil {
			return w.viol("twin.apply", "op %s fails on the twin only: %s", op, x.Msg)
		}
		ts.twin.trackIndex(op)
	}
	if op.Kind == "save" {
		ts.commitPos[w.Latest] = len(ts.survivors)
	}
	if op.Kind == "lvfo" || op.Kind == "dvf" {
		// a rollback to the latest version changes nothing; keep the position
		if _, ok := ts.commitPos[op.N]; !ok {
			ts.commitPos[op.N] = len(ts.survivors)
		}
	}
	return ts.compare(w)
}

func fastValue(b []byte) (int64, []byte, bool) {
	ver, n := binary.Varint(b)
	if n <= 0 {
		return 0, nil, false
	}
	v, rest, err := rdBytes(b[n:])
	if err != nil || len(rest) != 0 {
		return 0, nil, false
	}
	return ver, v, true
}

func (ts *twinState) compare(w *World) *Violation {
	tw := ts.twin
	if tw.First != w.First || tw.Latest != w.Latest || tw.Cur != w.Cur {
		return w.viol("harness", "twin model diverged: twin %d..%d cur %d, main %d..%d cur %d", tw.First, tw.Latest, tw.Cur, w.First, w.Latest, w.Cur)
	}
	if x := tw.Observe(); x != nil {
		return w.viol("twin.observe", "twin: %s", x.Msg)
	}
	if a, b := fmt.Sprint(w.Tree.AvailableVersions()), fmt.Sprint(tw.Tree.AvailableVersions()); a != b {
		return w.viol("twin.available", "AvailableVersions main=%s twin=%s", a, b)
	}
	if a, b := w.Tree.WorkingHash(), tw.Tree.WorkingHash(); !bytes.Equal(a, b) {
		return w.viol("twin.workinghash", "WorkingHash main=%x twin=%x", a, b)
	}
	mr, tr := w.rawDump(), tw.rawDump()
	keys := map[string]bool{}
	for k := range mr {
		keys[k] = true
	}
	for k := range tr {
		keys[k] = true
	}
	ks := make([]string, 0, len(keys))
	for k := range keys {
		ks = append(ks, k)
	}
	sort.Strings(ks)
	compareFast := !w.Cfg.SkipFast // the persisted index is only maintained while the handle has it enabled
	for _, k := range ks {
		a, inA := mr[k]
		b, inB := tr[k]
		switch k[0] {
		case 's':
			if !inA || !inB || !sameNodeEntry(k, a, b) {
				ver, non := int64(0), uint32(0)
				if len(k) == 13 {
					ver, non = unNK(k)
				}
				return w.viol("twin.raw_nodes", "node entry (%d,%d): main present=%v twin present=%v equal=%v", ver, non, inA, inB, bytes.Equal(a, b))
			}
		case 'f':
			if !compareFast {
				continue
			}
			if !inA || !inB {
				return w.viol("twin.raw_fast", "fast entry %q: main present=%v twin present=%v", k[1:], inA, inB)
			}
			va, xa, oka := fastValue(a)
			vb, xb, okb := fastValue(b)
			if !oka || !okb || !bytes.Equal(xa, xb) || va > w.Latest || vb > w.Latest {
				return w.viol("twin.raw_fast", "fast entry %q: main (%d,%q) twin (%d,%q)", k[1:], va, xa, vb, xb)
			}
		case 'm':
			if !compareFast {
				continue
			}
			if !bytes.Equal(a, b) {
				return w.viol("twin.raw_label", "metadata %q: main %q twin %q", k[1:], a, b)
			}
		default:
			if !inA || !inB || !bytes.Equal(a, b) {
				return w.viol("twin.raw_other", "entry %x differs", k)
			}
		}
	}
	w.Cnt["twin_compares"]++
	return nil
}

// sameNodeEntry: byte-identical, or identical after decoding when the only difference is that a child
// (or root) reference to a root re-keyed by pruning is written as (v,0) in one store and (v,1) in the
// other - both address the same stored node (GetNode falls back from (v,1) to (v,0)).
func sameNodeEntry(k string, a, b []byte) bool {
	if bytes.Equal(a, b) {
		return true
	}
	if len(a) == 13 && len(b) == 13 && a[0] == 's' && b[0] == 's' {
		va, na := unNK(string(a))
		vb, nb := unNK(string(b))
		return va == vb && na <= 1 && nb <= 1
	}
	da, ea := decodeNode([]byte(k), a)
	db, eb := decodeNode([]byte(k), b)
	if ea != nil || eb != nil || da.Height == 0 || db.Height == 0 {
		return false
	}
	norm := func(n uint32) uint32 {
		if n == 0 {
			return 1
		}
		return n
	}
	return da.Height == db.Height && da.Size == db.Size && bytes.Equal(da.Key, db.Key) && bytes.Equal(da.Hash, db.Hash) &&
		da.LVer == db.LVer && da.RVer == db.RVer && norm(da.LNon) == norm(db.LNon) && norm(da.RNon) == norm(db.RNon)
}

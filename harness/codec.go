package harness

// Independent codec of the pinned on-disk layout (written from docs/node/node.md, docs/architecture and
// the key-format description, not from node.go):
//   s<be64 version><be32 nonce>  -> node body | reference root (13-byte s-key) | empty (= empty tree)
//   f<key>                       -> varint version, bytes value
//   m storage_version            -> "1.1.0-<version>"
//   node body: varint height, varint size, bytes key, leaf: bytes value
//              inner: bytes hash(32), varint mode(0), varint lver, varint lnonce, varint rver, varint rnonce

import (
	"bytes"
	"encoding/binary"
	"errors"
	"fmt"
	"sort"

	corestore "cosmossdk.io/core/store"
)

type DNode struct {
	Ver        int64
	Nonce      uint32
	Height     int8
	Size       int64
	Key, Value []byte
	Hash       []byte
	LVer, RVer int64
	LNon, RNon uint32
}

func rdVarint(b []byte) (int64, []byte, error) {
	v, n := binary.Varint(b)
	if n <= 0 {
		return 0, nil, errors.New("varint")
	}
	return v, b[n:], nil
}
func rdBytes(b []byte) ([]byte, []byte, error) {
	l, n := binary.Uvarint(b)
	if n <= 0 || uint64(len(b)-n) < l {
		return nil, nil, errors.New("bytes")
	}
	return b[n : n+int(l)], b[n+int(l):], nil
}

func decodeNode(k, v []byte) (*DNode, error) {
	if len(k) != 13 || k[0] != 's' {
		return nil, errors.New("bad key")
	}
	d := &DNode{Ver: int64(binary.BigEndian.Uint64(k[1:9])), Nonce: binary.BigEndian.Uint32(k[9:])}
	h, v, err := rdVarint(v)
	if err != nil {
		return nil, err
	}
	if h < 0 || h > 127 {
		return nil, errors.New("height range")
	}
	d.Height = int8(h)
	if d.Size, v, err = rdVarint(v); err != nil {
		return nil, err
	}
	if d.Key, v, err = rdBytes(v); err != nil {
		return nil, err
	}
	if d.Height == 0 {
		if d.Value, v, err = rdBytes(v); err != nil {
			return nil, err
		}
	} else {
		if d.Hash, v, err = rdBytes(v); err != nil {
			return nil, err
		}
		if len(d.Hash) != 32 {
			return nil, errors.New("hash length")
		}
		var mode int64
		if mode, v, err = rdVarint(v); err != nil {
			return nil, err
		}
		if mode != 0 {
			return nil, fmt.Errorf("legacy mode %d", mode)
		}
		var x int64
		if d.LVer, v, err = rdVarint(v); err != nil {
			return nil, err
		}
		if x, v, err = rdVarint(v); err != nil {
			return nil, err
		}
		d.LNon = uint32(x)
		if d.RVer, v, err = rdVarint(v); err != nil {
			return nil, err
		}
		if x, v, err = rdVarint(v); err != nil {
			return nil, err
		}
		d.RNon = uint32(x)
	}
	if len(v) != 0 {
		return nil, errors.New("trailing bytes")
	}
	return d, nil
}

func nk(ver int64, nonce uint32) string {
	b := make([]byte, 13)
	b[0] = 's'
	binary.BigEndian.PutUint64(b[1:], uint64(ver))
	binary.BigEndian.PutUint32(b[9:], nonce)
	return string(b)
}

func unNK(k string) (int64, uint32) {
	return int64(binary.BigEndian.Uint64([]byte(k[1:9]))), binary.BigEndian.Uint32([]byte(k[9:]))
}

// AuditErr classifies what the raw audit found.
type AuditErr struct {
	Kind string // missing | extra | rootmarker | mismatch | decode
	Msg  string
}

func (e *AuditErr) Error() string { return e.Kind + ": " + e.Msg }

type AuditStats struct{ Nodes, Inner, RefRoots, EmptyRoots, Rekeyed int }

// auditRaw: raw scan; for each retained version walk from the root marker comparing every stored node
// with the reference tree (C13a) and collecting reachability (C12).
func auditRaw(raw map[string][]byte, vers map[int64]*VerState, checkFields bool) (AuditStats, *AuditErr) {
	var st AuditStats
	reach := map[string]bool{}
	verified := map[string]*RNode{}
	lookup := func(ver int64, nonce uint32) (string, []byte, bool) {
		k := nk(ver, nonce)
		if v, ok := raw[k]; ok {
			return k, v, true
		}
		if nonce == 1 {
			k = nk(ver, 0)
			if v, ok := raw[k]; ok {
				st.Rekeyed++
				return k, v, true
			}
		}
		return "", nil, false
	}
	var walk func(ver int64, nonce uint32, ref *RNode) *AuditErr
	walk = func(ver int64, nonce uint32, ref *RNode) *AuditErr {
		k, v, ok := lookup(ver, nonce)
		if !ok {
			return &AuditErr{"missing", fmt.Sprintf("node (%d,%d) key=%q", ver, nonce, ref.Key)}
		}
		if verified[k] == ref {
			return nil // shared subtree already verified against this very reference node
		}
		verified[k] = ref
		if !reach[k] {
			st.Nodes++
		}
		reach[k] = true
		d, err := decodeNode([]byte(k), v)
		if err != nil {
			return &AuditErr{"decode", fmt.Sprintf("(%d,%d): %v bytes=%x", ver, nonce, err, v)}
		}
		if checkFields {
			if d.Ver != ref.Version || d.Height != ref.Height || d.Size != ref.Size || !bytes.Equal(d.Key, ref.Key) {
				return &AuditErr{"mismatch", fmt.Sprintf("node (%d,%d): got ver=%d h=%d size=%d key=%q; ref ver=%d h=%d size=%d key=%q", ver, nonce, d.Ver, d.Height, d.Size, d.Key, ref.Version, ref.Height, ref.Size, ref.Key)}
			}
		}
		if ref.leaf() {
			if d.Height != 0 {
				return &AuditErr{"mismatch", fmt.Sprintf("node (%d,%d) is inner, reference is leaf", ver, nonce)}
			}
			if checkFields && !bytes.Equal(d.Value, ref.Value) {
				return &AuditErr{"mismatch", fmt.Sprintf("leaf (%d,%d) value %q want %q", ver, nonce, d.Value, ref.Value)}
			}
			return nil
		}
		if d.Height == 0 {
			return &AuditErr{"mismatch", fmt.Sprintf("node (%d,%d) is leaf, reference is inner", ver, nonce)}
		}
		st.Inner++
		if checkFields && !bytes.Equal(d.Hash, ref.Hash) {
			return &AuditErr{"mismatch", fmt.Sprintf("inner hash at (%d,%d)", ver, nonce)}
		}
		if e := walk(d.LVer, d.LNon, ref.Left); e != nil {
			return e
		}
		return walk(d.RVer, d.RNon, ref.Right)
	}
	vs := make([]int64, 0, len(vers))
	for v := range vers {
		vs = append(vs, v)
	}
	sort.Slice(vs, func(i, j int) bool { return vs[i] < vs[j] })
	for _, v := range vs {
		st8 := vers[v]
		rk := nk(v, 1)
		val, ok := raw[rk]
		if !ok {
			return st, &AuditErr{"missing", fmt.Sprintf("version %d: no root entry", v)}
		}
		switch {
		case len(val) == 0:
			reach[rk] = true
			st.EmptyRoots++
			if st8.Root != nil {
				return st, &AuditErr{"mismatch", fmt.Sprintf("version %d: empty root marker but model non-empty", v)}
			}
		case val[0] == 's' && (len(val) == 13 || len(val) == 9):
			reach[rk] = true
			st.RefRoots++
			if st8.Root == nil {
				return st, &AuditErr{"mismatch", fmt.Sprintf("version %d: reference root but model empty", v)}
			}
			if len(val) == 9 { // reference written before lazy pruning: 's' + version, nonce 1 implied
				val = append(append([]byte{}, val...), 0, 0, 0, 1)
			}
			rv, rn := unNK(string(val))
			if e := walk(rv, rn, st8.Root); e != nil {
				e.Msg = fmt.Sprintf("version %d (ref root -> %d,%d): %s", v, rv, rn, e.Msg)
				return st, e
			}
		default:
			if st8.Root == nil {
				return st, &AuditErr{"mismatch", fmt.Sprintf("version %d: node root but model empty", v)}
			}
			if e := walk(v, 1, st8.Root); e != nil {
				e.Msg = fmt.Sprintf("version %d: %s", v, e.Msg)
				return st, e
			}
		}
	}
	ks := make([]string, 0, len(raw))
	for k := range raw {
		ks = append(ks, k)
	}
	sort.Strings(ks)
	for _, k := range ks {
		if k[0] != 's' {
			continue
		}
		if len(k) != 13 {
			return st, &AuditErr{"extra", fmt.Sprintf("malformed node key %x", k)}
		}
		v, n := unNK(k)
		if _, retained := vers[v]; !retained && n == 1 {
			return st, &AuditErr{"rootmarker", fmt.Sprintf("version %d is not retained but its root key (%d,1) is still stored (reachable=%v)", v, v, reach[k])}
		}
		if !reach[k] {
			return st, &AuditErr{"extra", fmt.Sprintf("unreachable entry (%d,%d) => %x", v, n, raw[k])}
		}
	}
	return st, nil
}

// auditFast: the persisted fast index holds exactly the latest version's pairs and is labelled with it.
func auditFast(raw map[string][]byte, vers map[int64]*VerState, latest int64) error {
	vs := vers[latest]
	want := map[string][]byte{}
	if vs != nil {
		want = vs.KV
	}
	n := 0
	ks := make([]string, 0)
	for k := range raw {
		if k[0] == 'f' {
			ks = append(ks, k)
		}
	}
	sort.Strings(ks)
	for _, fk := range ks {
		k := fk[1:]
		v := raw[fk]
		ver, m := binary.Varint(v)
		if m <= 0 {
			return fmt.Errorf("bad fast node %x", v)
		}
		val, rest, err := rdBytes(v[m:])
		if err != nil || len(rest) != 0 {
			return fmt.Errorf("bad fast node %x", v)
		}
		w, ok := want[k]
		if !ok || !bytes.Equal(w, val) {
			return fmt.Errorf("fast entry %q=%q (ver %d) but model latest (%d) has %q,present=%v", k, val, ver, latest, w, ok)
		}
		if ver > latest {
			return fmt.Errorf("fast entry %q version %d > latest %d", k, ver, latest)
		}
		// the stamp says "this value is current from version ver on": it must not be older than the version that
		// wrote the value (versioned lookups between the two would be answered with a value from their future)
		if vs != nil {
			if lv := rleafVersion(vs.Root, []byte(k)); lv > 0 && ver < lv {
				bad := int64(-1)
				for u := range vers {
					if u >= ver && u < lv && (bad < 0 || u < bad) {
						bad = u
					}
				}
				if bad >= 0 {
					return fmt.Errorf("fast entry %q is stamped with version %d but its value was written in version %d: a versioned lookup at the retained version %d is answered from its future", k, ver, lv, bad)
				}
			}
		}
		n++
	}
	if n != len(want) {
		return fmt.Errorf("fast index has %d entries, latest (%d) has %d", n, latest, len(want))
	}
	lbl := raw["mstorage_version"]
	if latest > 0 && string(lbl) != fmt.Sprintf("1.1.0-%d", latest) {
		return fmt.Errorf("label %q want 1.1.0-%d", lbl, latest)
	}
	return nil
}

// ---- independent encoder (C13b): writes reference histories with its own nonce numbering.

type RefEncoder struct {
	db    corestore.KVStoreWithBatch
	keys  map[*RNode][2]int64 // node -> (version, nonce)
	nonce map[int64]uint32
	// Scheme 0: post-order numbering, root = 1 (own scheme); 1: pre-order numbering (root first = 1)
	Scheme int
}

func NewRefEncoder(db corestore.KVStoreWithBatch, scheme int) *RefEncoder {
	return &RefEncoder{db: db, keys: map[*RNode][2]int64{}, nonce: map[int64]uint32{}, Scheme: scheme}
}

func (e *RefEncoder) next(ver int64) uint32 {
	if e.nonce[ver] < 1 {
		e.nonce[ver] = 1
	}
	e.nonce[ver]++
	return e.nonce[ver]
}

func (e *RefEncoder) assign(n *RNode, ver int64, isRoot bool) {
	if _, ok := e.keys[n]; ok {
		return
	}
	if n.Version != ver {
		return // older node, already assigned
	}
	if e.Scheme == 1 {
		if isRoot {
			e.keys[n] = [2]int64{ver, 1}
		} else {
			e.keys[n] = [2]int64{ver, int64(e.next(ver))}
		}
	}
	if !n.leaf() {
		e.assign(n.Left, ver, false)
		e.assign(n.Right, ver, false)
	}
	if e.Scheme == 1 {
		return
	}
	if isRoot {
		e.keys[n] = [2]int64{ver, 1}
		return
	}
	e.keys[n] = [2]int64{ver, int64(e.next(ver))}
}

func EncodeNodeBody(n *RNode, l, r [2]int64) []byte {
	var b bytes.Buffer
	putVarint(&b, int64(n.Height))
	putVarint(&b, n.Size)
	putBytes(&b, n.Key)
	if n.leaf() {
		putBytes(&b, n.Value)
	} else {
		putBytes(&b, n.Hash)
		putVarint(&b, 0)
		putVarint(&b, l[0])
		putVarint(&b, l[1])
		putVarint(&b, r[0])
		putVarint(&b, r[1])
	}
	return b.Bytes()
}

func (e *RefEncoder) write(n *RNode) {
	k := e.keys[n]
	var l, r [2]int64
	if !n.leaf() {
		l, r = e.keys[n.Left], e.keys[n.Right]
	}
	_ = e.db.Set([]byte(nk(k[0], uint32(k[1]))), EncodeNodeBody(n, l, r))
}

// Commit writes version ver whose (stamped) root is root.
func (e *RefEncoder) Commit(root *RNode, ver int64) {
	rk := []byte(nk(ver, 1))
	if root == nil {
		_ = e.db.Set(rk, []byte{})
		return
	}
	if root.Version != ver {
		k := e.keys[root]
		_ = e.db.Set(rk, []byte(nk(k[0], uint32(k[1]))))
		return
	}
	e.assign(root, ver, true)
	var walk func(n *RNode)
	walk = func(n *RNode) {
		if n.Version != ver {
			return
		}
		if !n.leaf() {
			walk(n.Left)
			walk(n.Right)
		}
		e.write(n)
	}
	walk(root)
}

func EncodeFastNode(ver int64, value []byte) []byte {
	var b bytes.Buffer
	putVarint(&b, ver)
	putBytes(&b, value)
	return b.Bytes()
}

package harness

// Independent reader of a *hybrid* store: a database written by the pre-1.0 library (legacy layout) on which the
// current library has committed further versions. Pinned layout, restated here from docs/node and the v0.20.0 format:
//   r<be64 version>   -> 32-byte hash of the legacy root node ("" = empty tree)
//   n<32-byte hash>   -> legacy node body: varint height, varint size, varint version, bytes key,
//                        leaf: bytes value | inner: bytes leftHash, bytes rightHash
//   s<be64><be32>     -> new node body (codec.go) whose inner form carries varint mode in {0,1,2,3}:
//                        bit 1 = LEFT child is named by bytes hash(32) (a legacy node), else varint version, varint nonce
//                        bit 2 = RIGHT child likewise; the left child always comes first.
// The audit walks every retained version from its root marker through this reader only and compares every node met with
// the reference tree (key, height, size, node version, value, hash). It checks readability and content, not the absence
// of unreachable entries (what the legacy side leaves behind until the bulk deletion is not part of the pinned format).

import (
	"bytes"
	"encoding/binary"
	"errors"
	"fmt"
	"sort"
)

type childRef struct {
	Hash  []byte // legacy child
	Ver   int64
	Nonce uint32
}

type HNodeD struct {
	Legacy      bool
	Ver         int64
	Height      int8
	Size        int64
	Key, Value  []byte
	Hash        []byte // stored hash (new inner nodes) or the hash the legacy node is stored under
	Mode        int64
	Left, Right childRef
}

func decodeHybridNew(k, v []byte) (*HNodeD, error) {
	if len(k) != 13 || k[0] != 's' {
		return nil, errors.New("bad key")
	}
	d := &HNodeD{Ver: int64(binary.BigEndian.Uint64(k[1:9]))}
	h, v, err := rdVarint(v)
	if err != nil {
		return nil, err
	}
	if h < 0 || h > 127 {
		return nil, errors.New("height range")
	}
	d.Height = int8(h)
	if d.Size, v, err = rdVarint(v); err != nil {
		return nil, err
	}
	if d.Key, v, err = rdBytes(v); err != nil {
		return nil, err
	}
	if d.Height == 0 {
		if d.Value, v, err = rdBytes(v); err != nil {
			return nil, err
		}
	} else {
		if d.Hash, v, err = rdBytes(v); err != nil {
			return nil, err
		}
		if len(d.Hash) != 32 {
			return nil, errors.New("hash length")
		}
		if d.Mode, v, err = rdVarint(v); err != nil {
			return nil, err
		}
		if d.Mode < 0 || d.Mode > 3 {
			return nil, fmt.Errorf("mode %d", d.Mode)
		}
		rdChild := func(legacy bool) (c childRef, err error) {
			if legacy {
				if c.Hash, v, err = rdBytes(v); err != nil {
					return c, err
				}
				if len(c.Hash) != 32 {
					return c, errors.New("legacy child hash length")
				}
				return c, nil
			}
			var x int64
			if c.Ver, v, err = rdVarint(v); err != nil {
				return c, err
			}
			if x, v, err = rdVarint(v); err != nil {
				return c, err
			}
			if x < 0 || x > 0xffffffff {
				return c, errors.New("nonce range")
			}
			c.Nonce = uint32(x)
			return c, nil
		}
		if d.Left, err = rdChild(d.Mode&1 != 0); err != nil {
			return nil, fmt.Errorf("left child: %w", err)
		}
		if d.Right, err = rdChild(d.Mode&2 != 0); err != nil {
			return nil, fmt.Errorf("right child: %w", err)
		}
	}
	if len(v) != 0 {
		return nil, errors.New("trailing bytes")
	}
	return d, nil
}

func decodeLegacyBody(hash, v []byte) (*HNodeD, error) {
	d := &HNodeD{Legacy: true, Hash: hash}
	h, v, err := rdVarint(v)
	if err != nil {
		return nil, err
	}
	if h < 0 || h > 127 {
		return nil, errors.New("height range")
	}
	d.Height = int8(h)
	if d.Size, v, err = rdVarint(v); err != nil {
		return nil, err
	}
	if d.Ver, v, err = rdVarint(v); err != nil {
		return nil, err
	}
	if d.Key, v, err = rdBytes(v); err != nil {
		return nil, err
	}
	if d.Height == 0 {
		if d.Value, v, err = rdBytes(v); err != nil {
			return nil, err
		}
	} else {
		if d.Left.Hash, v, err = rdBytes(v); err != nil {
			return nil, err
		}
		if d.Right.Hash, v, err = rdBytes(v); err != nil {
			return nil, err
		}
		if len(d.Left.Hash) != 32 || len(d.Right.Hash) != 32 {
			return nil, errors.New("child hash length")
		}
	}
	if len(v) != 0 {
		return nil, errors.New("trailing bytes")
	}
	return d, nil
}

// auditHybrid returns the first disagreement between the raw store, read through the independent hybrid reader, and the
// reference trees of the retained versions.
func auditHybrid(raw map[string][]byte, vers map[int64]*VerState) (st struct {
	LegacyNodes, NewNodes, LegacyRoots int
	Mode                               [4]int
}, aerr *AuditErr) {
	type seenKey struct {
		k   string
		ref *RNode
	}
	seen := map[seenKey]bool{}
	var walk func(c childRef, ref *RNode, path string) *AuditErr
	walk = func(c childRef, ref *RNode, path string) *AuditErr {
		var d *HNodeD
		var sk string
		var err error
		if c.Hash != nil {
			sk = "n" + string(c.Hash)
			body, ok := raw[sk]
			if !ok {
				return &AuditErr{"missing", fmt.Sprintf("%s: legacy node %x (key %q) is not stored", path, c.Hash, ref.Key)}
			}
			if seen[seenKey{sk, ref}] {
				return nil
			}
			if d, err = decodeLegacyBody(c.Hash, body); err != nil {
				return &AuditErr{"decode", fmt.Sprintf("%s: legacy node %x: %v bytes=%x", path, c.Hash, err, body)}
			}
			st.LegacyNodes++
		} else {
			sk = nk(c.Ver, c.Nonce)
			body, ok := raw[sk]
			if !ok && c.Nonce == 1 {
				sk = nk(c.Ver, 0)
				body, ok = raw[sk]
			}
			if !ok {
				return &AuditErr{"missing", fmt.Sprintf("%s: node (%d,%d) (key %q) is not stored", path, c.Ver, c.Nonce, ref.Key)}
			}
			if seen[seenKey{sk, ref}] {
				return nil
			}
			if d, err = decodeHybridNew([]byte(sk), body); err != nil {
				return &AuditErr{"decode", fmt.Sprintf("%s: node (%d,%d): %v bytes=%x", path, c.Ver, c.Nonce, err, body)}
			}
			st.NewNodes++
			if d.Height > 0 {
				st.Mode[d.Mode]++
			}
		}
		seen[seenKey{sk, ref}] = true
		if d.Ver != ref.Version || d.Height != ref.Height || d.Size != ref.Size || !bytes.Equal(d.Key, ref.Key) {
			return &AuditErr{"mismatch", fmt.Sprintf("%s: stored node (legacy=%v) ver=%d h=%d size=%d key=%q; reference ver=%d h=%d size=%d key=%q", path, d.Legacy, d.Ver, d.Height, d.Size, d.Key, ref.Version, ref.Height, ref.Size, ref.Key)}
		}
		if ref.leaf() {
			if !bytes.Equal(d.Value, ref.Value) {
				return &AuditErr{"mismatch", fmt.Sprintf("%s: leaf %q value %q want %q", path, d.Key, d.Value, ref.Value)}
			}
			if d.Legacy && !bytes.Equal(d.Hash, ref.Hash) {
				return &AuditErr{"mismatch", fmt.Sprintf("%s: legacy leaf %q stored under hash %x, reference hash %x", path, d.Key, d.Hash, ref.Hash)}
			}
			return nil
		}
		if !bytes.Equal(d.Hash, ref.Hash) {
			return &AuditErr{"mismatch", fmt.Sprintf("%s: inner node key=%q hash %x, reference %x", path, d.Key, d.Hash, ref.Hash)}
		}
		// a child named by hash must be the reference child's hash (the link itself is part of the format)
		if d.Left.Hash != nil && !bytes.Equal(d.Left.Hash, ref.Left.Hash) {
			return &AuditErr{"mismatch", fmt.Sprintf("%s: inner node key=%q names its left child by hash %x, the reference left child has %x (mode %d)", path, d.Key, d.Left.Hash, ref.Left.Hash, d.Mode)}
		}
		if d.Right.Hash != nil && !bytes.Equal(d.Right.Hash, ref.Right.Hash) {
			return &AuditErr{"mismatch", fmt.Sprintf("%s: inner node key=%q names its right child by hash %x, the reference right child has %x (mode %d)", path, d.Key, d.Right.Hash, ref.Right.Hash, d.Mode)}
		}
		if e := walk(d.Left, ref.Left, path+"L"); e != nil {
			return e
		}
		return walk(d.Right, ref.Right, path+"R")
	}
	vs := make([]int64, 0, len(vers))
	for v := range vers {
		vs = append(vs, v)
	}
	sort.Slice(vs, func(i, j int) bool { return vs[i] < vs[j] })
	for _, v := range vs {
		ref := vers[v].Root
		path := fmt.Sprintf("version %d /", v)
		var be [8]byte
		binary.BigEndian.PutUint64(be[:], uint64(v))
		if h, ok := raw["r"+string(be[:])]; ok {
			st.LegacyRoots++
			if len(h) == 0 {
				if ref != nil {
					return st, &AuditErr{"mismatch", fmt.Sprintf("version %d: empty legacy root but the reference tree is not empty", v)}
				}
				continue
			}
			if ref == nil {
				return st, &AuditErr{"mismatch", fmt.Sprintf("version %d: legacy root %x but the reference tree is empty", v, h)}
			}
			if len(h) != 32 {
				return st, &AuditErr{"decode", fmt.Sprintf("version %d: legacy root value %x", v, h)}
			}
			if e := walk(childRef{Hash: h}, ref, path); e != nil {
				return st, e
			}
			continue
		}
		val, ok := raw[nk(v, 1)]
		if !ok {
			return st, &AuditErr{"missing", fmt.Sprintf("version %d: neither a legacy root record nor a root entry", v)}
		}
		switch {
		case len(val) == 0:
			if ref != nil {
				return st, &AuditErr{"mismatch", fmt.Sprintf("version %d: empty root marker but the reference tree is not empty", v)}
			}
		case val[0] == 's' && (len(val) == 13 || len(val) == 9):
			if ref == nil {
				return st, &AuditErr{"mismatch", fmt.Sprintf("version %d: reference root but the reference tree is empty", v)}
			}
			if len(val) == 9 {
				val = append(append([]byte{}, val...), 0, 0, 0, 1)
			}
			rv, rn := unNK(string(val))
			if e := walk(childRef{Ver: rv, Nonce: rn}, ref, fmt.Sprintf("version %d -> (%d,%d) /", v, rv, rn)); e != nil {
				return st, e
			}
		default:
			if ref == nil {
				return st, &AuditErr{"mismatch", fmt.Sprintf("version %d: node root but the reference tree is empty", v)}
			}
			if e := walk(childRef{Ver: v, Nonce: 1}, ref, path); e != nil {
				return st, e
			}
		}
	}
	return st, nil
}

// EncodeHybridInner encodes an inner node whose children are named by hash (legacy) where lh / rh are non-nil.
func EncodeHybridInner(n *RNode, l, r [2]int64, lh, rh []byte) []byte {
	var b bytes.Buffer
	putVarint(&b, int64(n.Height))
	putVarint(&b, n.Size)
	putBytes(&b, n.Key)
	putBytes(&b, n.Hash)
	mode := int64(0)
	if lh != nil {
		mode |= 1
	}
	if rh != nil {
		mode |= 2
	}
	putVarint(&b, mode)
	if lh != nil {
		putBytes(&b, lh)
	} else {
		putVarint(&b, l[0])
		putVarint(&b, l[1])
	}
	if rh != nil {
		putBytes(&b, rh)
	} else {
		putVarint(&b, r[0])
		putVarint(&b, r[1])
	}
	return b.Bytes()
}

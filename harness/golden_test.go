package harness

import (
	"encoding/hex"
	"math/rand"
	"testing"
)

func TestGoldenRef(t *testing.T) {
	const (
		randSeed    = 49872768940
		keySize     = 16
		valueSize   = 16
		versions    = 4
		versionOps  = 4096
		updateRatio = 0.4
		deleteRatio = 0.2
	)
	expect := []string{
		"58ec30fa27f338057e5964ed9ec3367e59b2b54bec4c194f10fde7fed16c2a1c",
		"91ad3ace227372f0064b2d63e8493ce8f4bdcbd16c7a8e4f4d54029c9db9570c",
		"92c25dce822c5968c228cfe7e686129ea281f79273d4a8fcf6f9130a47aa5421",
		"e44d170925554f42e00263155c19574837a38e3efed8910daccc7fa12f560fa0",
	}
	r := rand.New(rand.NewSource(randSeed))
	var root *RNode
	keys := make([][]byte, 0, versionOps)
	for i := 0; i < versions; i++ {
		for j := 0; j < versionOps; j++ {
			key := make([]byte, keySize)
			value := make([]byte, valueSize)
			switch {
			case len(keys) > 0 && r.Float64() <= deleteRatio:
				index := r.Intn(len(keys))
				key = keys[index]
				keys = append(keys[:index], keys[index+1:]...)
				var rm bool
				root, _, _, rm = rremove(root, key)
				if !rm {
					t.Fatal("not removed")
				}
			case len(keys) > 0 && r.Float64() <= updateRatio:
				key = keys[r.Intn(len(keys))]
				r.Read(value)
				var upd bool
				root, upd = rset(root, key, value)
				if !upd {
					t.Fatal("not updated")
				}
			default:
				r.Read(key)
				r.Read(value)
				var upd bool
				root, upd = rset(root, key, value)
				if upd {
					t.Fatal("collision")
				}
				keys = append(keys, key)
			}
		}
		h := rhash(root, int64(i+1), true)
		if hex.EncodeToString(h) != expect[i] {
			t.Fatalf("version %d: ref %x want %s", i+1, h, expect[i])
		}
	}
}

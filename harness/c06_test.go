//go:build verif

package harness

// C06: committed versions can be read concurrently with the single writer.
// (a) planned schedules: threads are parked at named points (storage calls seen by the seam, verif yield
//     points inside the commit / prune protocol) until another thread has made progress;
// (b) the same scripts on the real scheduler under the race detector, with a checking oracle.

import (
	"bytes"
	"encoding/json"
	"fmt"
	"os"
	"runtime"
	"sort"
	"strconv"
	"strings"
	"sync"
	"sync/atomic"
	"testing"
	"time"

	"github.com/cosmos/iavl"
	dbm "github.com/cosmos/iavl/db"
	ics23 "github.com/cosmos/ics23/go"
	"pgregory.net/rapid"
)

type ROp struct {
	V    int64  `json:"v"` // 0 = the latest version at that moment
	Kind string `json:"kind"`
	K    []byte `json:"k,omitempty"`
	Asc  bool   `json:"asc,omitempty"`
	// Keep: read through the handle the reader obtained for its previous step (a reader that keeps its version open
	// while the writer goes on) instead of asking for a version again
	Keep bool `json:"keep,omitempty"`
}

type Directive struct {
	Thread int    `json:"thread"` // 0 = writer, i >= 1 = reader i
	Event  string `json:"event"`  // db:<kind> | yield:<point>
	Nth    int    `json:"nth"`
	Until  int    `json:"until"` // thread whose progress is awaited
	Steps  int    `json:"steps"` // number of further completed script steps of that thread (or occurrences of UntilEvent)
	// UntilEvent: if set, wait until thread Until has seen this event Steps times (absolute) instead of counting steps
	UntilEvent string `json:"until_event,omitempty"`
}

type C06Case struct {
	Prop    string      `json:"property"`
	Cache   int         `json:"cache"`
	Skip    bool        `json:"skip_fast"`
	Async   bool        `json:"async_pruning"`
	Init    []Op        `json:"init"`
	Writer  []Op        `json:"writer"`
	Readers [][]ROp     `json:"readers"`
	Plan    []Directive `json:"plan"`
	Reopen  bool        `json:"reopen_cold,omitempty"` // after the initial versions continue on a fresh handle (cold node and fast-node caches)
	Stress  bool        `json:"stress,omitempty"`
	// Flush: write-batch flush threshold (0 = default): small values split one commit / deletion over several physical
	// writes, so readers run between them
	Flush  int   `json:"flush,omitempty"`
	Pauses []int `json:"pauses,omitempty"`
}

func gid() int64 {
	var buf [64]byte
	n := runtime.Stack(buf[:], false)
	// "goroutine 123 [running]:"
	s := buf[10:n]
	i := bytes.IndexByte(s, ' ')
	id, _ := strconv.ParseInt(string(s[:i]), 10, 64)
	return id
}

type sched struct {
	mu          sync.Mutex
	cond        *sync.Cond
	threads     map[int64]int
	steps       []int
	finished    []bool
	counts      []map[string]int
	plan        []Directive
	unscheduled int32
	honoured    int32
	between     int32 // reader steps completed while the writer was parked inside a commit / prune
	writerIn    int32
	pauses      []int
	npause      int32
}

func (s *sched) thread() int {
	s.mu.Lock()
	defer s.mu.Unlock()
	if th, ok := s.threads[gid()]; ok {
		return th
	}
	return -1
}

func (s *sched) event(ev string) {
	g := gid()
	s.mu.Lock()
	th, ok := s.threads[g]
	if !ok {
		s.mu.Unlock()
		return
	}
	if s.counts[th] == nil {
		s.counts[th] = map[string]int{}
	}
	s.counts[th][ev]++
	n := s.counts[th][ev]
	var wait *Directive
	for i := range s.plan {
		d := &s.plan[i]
		if d.Thread == th && d.Event == ev && d.Nth == n && d.Until != th && d.Until < len(s.steps) {
			wait = d
			break
		}
	}
	if wait == nil {
		s.mu.Unlock()
		if len(s.pauses) > 0 {
			i := int(atomic.AddInt32(&s.npause, 1))
			if p := s.pauses[i%len(s.pauses)]; p > 0 {
				if p == 1 {
					runtime.Gosched()
				} else {
					time.Sleep(time.Duration(p) * time.Microsecond)
				}
			}
		}
		return
	}
	target := s.steps[wait.Until] + wait.Steps
	if th == 0 {
		atomic.StoreInt32(&s.writerIn, 1)
	}
	deadline := time.Now().Add(250 * time.Millisecond)
	timedOut := false
	pending := func() bool {
		if wait.UntilEvent != "" {
			return s.counts[wait.Until][wait.UntilEvent] < wait.Steps
		}
		return s.steps[wait.Until] < target
	}
	for pending() && !s.finished[wait.Until] {
		if time.Now().After(deadline) {
			timedOut = true
			break
		}
		s.mu.Unlock()
		time.Sleep(200 * time.Microsecond)
		s.mu.Lock()
	}
	if th == 0 {
		atomic.StoreInt32(&s.writerIn, 0)
	}
	if timedOut {
		atomic.AddInt32(&s.unscheduled, 1)
	} else {
		atomic.AddInt32(&s.honoured, 1)
	}
	s.mu.Unlock()
}

func (s *sched) done(th int) {
	s.mu.Lock()
	s.steps[th]++
	if th > 0 && atomic.LoadInt32(&s.writerIn) == 1 {
		atomic.AddInt32(&s.between, 1)
	}
	s.mu.Unlock()
}

func (s *sched) finish(th int) {
	s.mu.Lock()
	s.finished[th] = true
	s.mu.Unlock()
}

type c06Stats struct {
	honoured, unscheduled, between, readerOps, keptReads int
}

type verModel struct {
	root *RNode
	kv   map[string][]byte
}

var c06Deadline = func() time.Duration {
	if d, err := time.ParseDuration(os.Getenv("VERIF_C06_DEADLINE")); err == nil && d > 0 {
		return d // (only used to exercise the watchdog itself)
	}
	return 4 * time.Minute
}()

func runC06(c C06Case) (v *Violation, st c06Stats) {
	var vmu sync.Mutex
	viol := func(obs, f string, a ...any) {
		vmu.Lock()
		if v == nil {
			v = &Violation{Prop: "C06", Obs: obs, Msg: fmt.Sprintf(f, a...)}
		}
		vmu.Unlock()
	}
	tdb := NewTraceDBOn(dbm.NewMemDB())
	tdb.NoJournal = true
	// hooks are installed before the tree (and its background pruning goroutine) exists and removed after Close
	s := &sched{threads: map[int64]int{}, steps: make([]int, len(c.Readers)+1), finished: make([]bool, len(c.Readers)+1),
		counts: make([]map[string]int, len(c.Readers)+1), plan: append([]Directive{}, c.Plan...), pauses: c.Pauses}
	s.cond = sync.NewCond(&s.mu)
	tdb.OnCall = func(kind string) { s.event("db:" + kind) }
	iavl.VerifYieldHook = func(point string) { s.event("yield:" + point) }
	opts := []iavl.Option{iavl.AsyncPruningOption(c.Async)}
	if c.Flush > 0 {
		opts = append(opts, iavl.FlushThresholdOption(c.Flush))
	}
	tr := iavl.NewMutableTree(tdb, c.Cache, c.Skip, iavl.NewNopLogger(), opts...)
	deadlocked := false
	defer func() {
		if !deadlocked { // (Close would block on the same locks)
			_ = tr.Close()
		}
		iavl.VerifYieldHook = nil
		tdb.OnCall = nil
	}()
	if _, err := tr.Load(); err != nil {
		return &Violation{Prop: "C06", Obs: "harness", Msg: err.Error()}, st
	}
	// ---- model of every version, precomputed (independent of the schedule)
	models := map[int64]*verModel{}
	var wroot *RNode
	work := map[string][]byte{}
	var latest int64
	apply := func(op Op, real bool) error {
		switch op.Kind {
		case "set":
			val := op.V
			if val == nil {
				val = []byte{}
			}
			wroot, _ = rset(wroot, op.K, val)
			work[string(op.K)] = val
			if real {
				if _, err := tr.Set(op.K, val); err != nil {
					return err
				}
			}
		case "remove":
			if _, ok := work[string(op.K)]; ok {
				wroot, _, _, _ = rremove(wroot, op.K)
				delete(work, string(op.K))
			}
			if real {
				if _, _, err := tr.Remove(op.K); err != nil {
					return err
				}
			}
		case "save":
			latest++
			rhash(wroot, latest, true)
			models[latest] = &verModel{wroot, copyKV(work)}
			if real {
				h, ver, err := tr.SaveVersion()
				if err != nil {
					return err
				}
				if ver != latest || !bytes.Equal(h, wroot.hashOrEmpty()) {
					return fmt.Errorf("SaveVersion = %d,%x want %d,%x", ver, h, latest, wroot.hashOrEmpty())
				}
			}
		}
		return nil
	}
	for _, op := range c.Init {
		if err := apply(op, true); err != nil {
			return &Violation{Prop: "C06", Obs: "init", Msg: err.Error()}, st
		}
	}
	v0 := latest
	if c.Reopen {
		_ = tr.Close()
		tr = iavl.NewMutableTree(tdb, c.Cache, c.Skip, iavl.NewNopLogger(), opts...)
		if _, err := tr.Load(); err != nil {
			return &Violation{Prop: "C06", Obs: "harness", Msg: err.Error()}, st
		}
	}
	for _, op := range c.Writer {
		_ = apply(op, false) // model only
	}
	// ---- scheduler
	var wg sync.WaitGroup
	register := func(th int) {
		s.mu.Lock()
		s.threads[gid()] = th
		s.mu.Unlock()
	}
	// ---- writer
	wg.Add(1)
	go func() {
		defer wg.Done()
		defer s.finish(0)
		defer func() {
			if r := recover(); r != nil {
				viol("writer.panic", "writer panicked: %v", r)
			}
		}()
		register(0)
		cur := v0
		pins := map[int64][]*iavl.Exporter{}
		defer func() {
			for _, exs := range pins {
				for _, ex := range exs {
					ex.Close()
				}
			}
		}()
		var first int64 = 1
		for _, op := range c.Writer {
			switch op.Kind {
			case "set":
				val := op.V
				if val == nil {
					val = []byte{}
				}
				if _, err := tr.Set(op.K, val); err != nil {
					viol("writer.set", "%v", err)
				}
			case "remove":
				if _, _, err := tr.Remove(op.K); err != nil {
					viol("writer.remove", "%v", err)
				}
			case "save":
				cur++
				if c.Async {
					tr.SetCommitting()
				}
				h, ver, err := tr.SaveVersion()
				if c.Async {
					tr.UnsetCommitting()
				}
				m := models[cur]
				if err != nil || ver != cur || !bytes.Equal(h, m.root.hashOrEmpty()) {
					viol("writer.save", "SaveVersion = %d,%x,%v want %d,%x", ver, h, err, cur, m.root.hashOrEmpty())
				}
			case "pin":
				it, err := tr.GetImmutable(op.N)
				if err != nil {
					viol("writer.pin", "GetImmutable(%d): %v", op.N, err)
					break
				}
				ex, err := it.Export()
				if err != nil {
					viol("writer.pin", "Export(%d): %v", op.N, err)
					break
				}
				pins[op.N] = append(pins[op.N], ex)
			case "unpin":
				if exs := pins[op.N]; len(exs) > 0 {
					exs[0].Close()
					exs[0].Close() // Close is documented as safe to call multiple times (explicit + deferred Close idiom)
					pins[op.N] = exs[1:]
				}
			case "prune":
				pinned := false
				for pv, exs := range pins {
					if len(exs) > 0 && pv >= first && pv <= op.N {
						pinned = true
					}
				}
				err := tr.DeleteVersionsTo(op.N)
				if c.Async {
					if err != nil {
						viol("writer.prune", "async DeleteVersionsTo(%d): %v", op.N, err)
					}
					if pinned {
						// must not be carried out while the export is open
						time.Sleep(3 * time.Millisecond)
						for pv, exs := range pins {
							if len(exs) > 0 && pv >= first && pv <= op.N && !tr.VersionExists(pv) {
								viol("pin.deleted", "version %d is held by an open export but was deleted by background pruning", pv)
							}
						}
					}
				} else if pinned {
					if err == nil {
						viol("pin.deleted", "DeleteVersionsTo(%d) succeeded although a version <= %d is held by an open export", op.N, op.N)
					}
				} else {
					if err != nil {
						viol("writer.prune", "DeleteVersionsTo(%d): %v", op.N, err)
					} else if op.N >= first {
						first = op.N + 1
					}
				}
			}
			s.done(0)
		}
	}()
	// ---- readers
	type suspect struct {
		obs, msg string
		ver      int64
		op       ROp
		th       int
		it       *iavl.ImmutableTree // the handle the reader used
	}
	var smu sync.Mutex
	var suspects []suspect
	var nread, nkept int32
	for ri, script := range c.Readers {
		wg.Add(1)
		go func(th int, script []ROp) {
			defer wg.Done()
			defer s.finish(th)
			defer func() {
				if r := recover(); r != nil {
					viol("reader.panic", "reader %d panicked: %v", th, r)
				}
			}()
			register(th)
			s.event("start")
			var keptIt *iavl.ImmutableTree
			var keptVer int64
			var kbuf []byte // every reader asks through ONE reused key buffer (a client that decodes requests into a scratch buffer)
			for _, op := range script {
				kbuf = append(kbuf[:0], op.K...)
				op.K = kbuf
				ver := op.V
				var it *iavl.ImmutableTree
				if op.Keep && keptIt != nil {
					it, ver = keptIt, keptVer
					atomic.AddInt32(&nkept, 1)
				} else {
					if ver == 0 {
						lv, err := tr.GetLatestVersion()
						if err != nil {
							viol("reader.latest", "GetLatestVersion: %v", err)
						}
						ver = lv
					}
					var err error
					it, err = tr.GetImmutable(ver)
					if err != nil || models[ver] == nil {
						viol("reader.getimmutable", "reader %d: GetImmutable(%d) (requested %d): %v model=%v", th, ver, op.V, err, models[ver] != nil)
						s.done(th)
						continue
					}
					keptIt, keptVer = it, ver
				}
				m := models[ver]
				checkRead(it, ver, m, op, th, func(obs, f string, a ...any) {
					if ver >= v0 && !c.Skip && (op.Kind == "get" || op.Kind == "has" || op.Kind == "iterator") {
						// possibly the transient window of F12: decided after the run
						smu.Lock()
						sop := op
						sop.K = append([]byte{}, op.K...) // (op.K is the reader's reused buffer)
						suspects = append(suspects, suspect{obs, fmt.Sprintf(f, a...), ver, sop, th, it})
						smu.Unlock()
						return
					}
					viol(obs, f, a...)
				})
				atomic.AddInt32(&nread, 1)
				s.done(th)
			}
		}(ri+1, script)
	}
	// readers and the writer must all finish: the scheduler releases every parked thread after 250 ms, the scripts are a
	// few dozen calls, so a run that is still going after minutes is blocked inside the library (lock-order inversion,
	// lost wake-up of the pruning goroutine, ...): "readers can read while the writer writes" is violated
	waitDone := make(chan struct{})
	go func() { wg.Wait(); close(waitDone) }()
	select {
	case <-waitDone:
	case <-time.After(c06Deadline):
		deadlocked = true
		buf := make([]byte, 1<<17)
		n := runtime.Stack(buf, true)
		stacks := string(buf[:n])
		if len(stacks) > 6000 {
			stacks = stacks[:6000] + "..."
		}
		return &Violation{Prop: "C06", Obs: "deadlock", Msg: fmt.Sprintf("writer and readers did not finish within %s; goroutines:\n%s", c06Deadline, stacks)}, st
	}
	// ---- quiescent re-verification (single-threaded, writer finished)
	for _, sp := range suspects {
		it, err := tr.GetImmutable(sp.ver)
		persistent := err != nil
		if err == nil {
			checkRead(it, sp.ver, models[sp.ver], sp.op, sp.th, func(string, string, ...any) { persistent = true })
			// ... and through the very handle the reader holds (the version still exists): a handle that stays wrong
			// after the writer has finished is not the commit window of F12
			checkRead(sp.it, sp.ver, models[sp.ver], sp.op, sp.th, func(string, string, ...any) { persistent = true })
		}
		if persistent {
			viol(sp.obs, "%s (and the same read is still wrong after the writer finished)", sp.msg)
		} else {
			viol(sp.obs+".transient_latest", "%s (the same read is right once the writer has finished: a window while version %d was the cached latest version)", sp.msg, sp.ver)
		}
	}
	if v == nil {
		// every readable version must be intact on all read paths now
		lv, _ := tr.GetLatestVersion()
		for ver := v0 - 1; ver <= lv; ver++ {
			m := models[ver]
			it, err := tr.GetImmutable(ver)
			if err != nil || m == nil {
				viol("final.getimmutable", "after the run GetImmutable(%d): %v", ver, err)
				break
			}
			for k := range m.kv {
				checkRead(it, ver, m, ROp{Kind: "get", K: []byte(k)}, -1, viol)
			}
			checkRead(it, ver, m, ROp{Kind: "iterator", Asc: true}, -1, viol)
			if ver == lv {
				// the working tree of the writer equals the latest version
				for k, want := range m.kv {
					if g, err := tr.Get([]byte(k)); err != nil || !bytes.Equal(g, want) {
						viol("final.working_get", "after the run MutableTree.Get(%q)=%q,%v want %q", k, g, err, want)
					}
				}
			}
		}
		if lv != latest {
			viol("final.latest", "after the run GetLatestVersion=%d want %d", lv, latest)
		}
	}
	st.honoured, st.unscheduled, st.between, st.readerOps = int(s.honoured), int(s.unscheduled), int(s.between), int(nread)
	st.keptReads = int(nkept)
	return v, st
}

func (n *RNode) hashOrEmpty() []byte {
	if n == nil {
		return emptyHash
	}
	return n.Hash
}

func checkRead(it *iavl.ImmutableTree, ver int64, m *verModel, op ROp, th int, viol func(obs, f string, a ...any)) {
	want, present := m.kv[string(op.K)]
	switch op.Kind {
	case "get":
		g, err := it.Get(op.K)
		if err != nil || !bytes.Equal(g, want) || (present && g == nil) || (!present && g != nil) {
			viol("reader.get", "reader %d: version %d Get(%q)=%q,nil=%v,%v want %q present=%v", th, ver, op.K, g, g == nil, err, want, present)
		}
	case "has":
		h, err := it.Has(op.K)
		if err != nil || h != present {
			viol("reader.has", "reader %d: version %d Has(%q)=%v,%v want %v", th, ver, op.K, h, err, present)
		}
	case "getwithindex":
		_, g, err := it.GetWithIndex(op.K)
		if err != nil || !bytes.Equal(g, want) || (present && g == nil) {
			viol("reader.getwithindex", "reader %d: version %d GetWithIndex(%q)=%q,%v want %q", th, ver, op.K, g, err, want)
		}
	case "iterator":
		itr, err := it.Iterator(nil, nil, op.Asc)
		if err != nil {
			viol("reader.iterator", "%v", err)
			return
		}
		got, err := drain(itr)
		if w := expectRange(m.kv, nil, nil, op.Asc, false); err != nil || !eqKVs(got, w) {
			viol("reader.iterator", "reader %d: version %d Iterator=%s,%v want %s", th, ver, fmtKVs(got), err, fmtKVs(w))
		}
	case "proof":
		if m.root == nil {
			return
		}
		p, err := it.GetProof(op.K)
		if err != nil {
			viol("reader.proof", "reader %d: version %d GetProof(%q): %v", th, ver, op.K, err)
			return
		}
		root := m.root.Hash
		if len(op.K) == 0 {
			return // ics23 cannot verify empty keys
		}
		if present {
			if len(want) > 0 && !ics23.VerifyMembership(ics23.IavlSpec, root, p, op.K, want) {
				viol("reader.proof", "reader %d: version %d membership proof of %q does not verify against the reference root", th, ver, op.K)
			}
		} else {
			ok := true
			ne := p.GetNonexist()
			if ne == nil {
				viol("reader.proof", "reader %d: version %d GetProof(absent %q) is not a non-membership proof", th, ver, op.K)
				return
			}
			for _, nb := range []*ics23.ExistenceProof{ne.Left, ne.Right} {
				if nb != nil && (len(nb.Value) == 0 || len(nb.Key) == 0) {
					ok = false // ics23 cannot verify empty values / keys
				}
			}
			if ok && !ics23.VerifyNonMembership(ics23.IavlSpec, root, p, op.K) {
				viol("reader.proof", "reader %d: version %d non-membership proof of %q does not verify against the reference root", th, ver, op.K)
			}
		}
	case "export":
		if m.root == nil {
			return
		}
		nodes, err := ExportAll(it, false)
		var wantN []*RNode
		rpost(m.root, func(x *RNode) { wantN = append(wantN, x) })
		if err != nil || len(nodes) != len(wantN) {
			viol("reader.export", "reader %d: version %d export %d nodes,%v want %d", th, ver, len(nodes), err, len(wantN))
			return
		}
		for i, x := range wantN {
			if !bytes.Equal(nodes[i].Key, x.Key) || !bytes.Equal(nodes[i].Value, x.Value) || nodes[i].Version != x.Version || nodes[i].Height != x.Height {
				viol("reader.export", "reader %d: version %d export node %d differs", th, ver, i)
				return
			}
		}
	}
}

var c06Events = []string{"yield:SaveVersion:afterCommit", "yield:SaveVersion:afterCommit", "yield:deleteVersionsTo:beforeVersion", "yield:deleteVersionsTo:afterVersion",
	"db:BatchWrite", "db:BatchSet", "db:BatchDelete", "db:Get", "db:Get", "db:Has", "db:Iterator", "db:ReverseIterator", "db:IterNext"}

func genC06(t *rapid.T, stress bool) C06Case {
	c := C06Case{Prop: "C06", Cache: rapid.SampledFrom([]int{0, 0, 2, 1000}).Draw(t, "cache"), Skip: rapid.Bool().Draw(t, "skip"),
		Async: rapid.IntRange(0, 3).Draw(t, "async") == 0, Stress: stress, Reopen: rapid.Bool().Draw(t, "reopenCold"),
		Flush: rapid.SampledFrom([]int{0, 0, 0, 150, 300, 1000}).Draw(t, "flush")}
	work := map[string][]byte{}
	genWrites := func(n int, dst *[]Op) {
		for i := 0; i < n; i++ {
			if len(work) > 0 && rapid.IntRange(0, 3).Draw(t, "rm") == 0 {
				k := genRemoveKey(t, work)
				delete(work, string(k))
				*dst = append(*dst, Op{Kind: "remove", K: k})
			} else {
				k, v := genKey(t, work), genValue(t)
				if len(v) == 0 {
					v = []byte{1}
				}
				work[string(k)] = v
				*dst = append(*dst, Op{Kind: "set", K: k, V: v})
			}
		}
	}
	v0 := rapid.IntRange(3, 6).Draw(t, "v0")
	var allKeys []map[string][]byte
	for v := 1; v <= v0; v++ {
		genWrites(rapid.IntRange(1, 6).Draw(t, "ninit"), &c.Init)
		c.Init = append(c.Init, Op{Kind: "save"})
		allKeys = append(allKeys, copyKV(work))
	}
	minRead := int64(v0 - 1)
	// writer script
	latest := int64(v0)
	first := int64(1)
	pinned := map[int64]int{}
	nw := rapid.IntRange(3, 14).Draw(t, "nwriter")
	for i := 0; i < nw; i++ {
		switch x := rapid.IntRange(0, 11).Draw(t, "wop"); {
		case x <= 4:
			genWrites(1, &c.Writer)
		case x <= 7:
			c.Writer = append(c.Writer, Op{Kind: "save"})
			latest++
			allKeys = append(allKeys, copyKV(work))
		case x == 8 && first < minRead:
			c.Writer = append(c.Writer, Op{Kind: "prune", N: rapid.Int64Range(first, minRead-1).Draw(t, "pn")})
			if !pinnedIn(pinned, first, c.Writer[len(c.Writer)-1].N) {
				first = c.Writer[len(c.Writer)-1].N + 1
			}
		case x == 9 && first < minRead:
			pv := rapid.Int64Range(first, minRead-1).Draw(t, "pinv")
			if len(pinned) > 0 && rapid.Bool().Draw(t, "pinSame") {
				pv = sortedInt64Keys(pinned)[0] // a second export of a version that is already being exported
			}
			pinned[pv]++
			c.Writer = append(c.Writer, Op{Kind: "pin", N: pv})
		case x == 10 && len(pinned) > 0:
			for _, pv := range sortedInt64Keys(pinned) {
				c.Writer = append(c.Writer, Op{Kind: "unpin", N: pv})
				pinned[pv]--
				if pinned[pv] == 0 {
					delete(pinned, pv)
				}
				break
			}
		default:
			genWrites(1, &c.Writer)
		}
	}
	c.Writer = append(c.Writer, Op{Kind: "save"})
	// readers
	nr := rapid.IntRange(1, 4).Draw(t, "nreaders")
	kinds := []string{"get", "get", "has", "getwithindex", "iterator", "proof", "export"}
	for r := 0; r < nr; r++ {
		var script []ROp
		n := rapid.IntRange(2, 10).Draw(t, "nrops")
		for i := 0; i < n; i++ {
			op := ROp{Kind: rapid.SampledFrom(kinds).Draw(t, "rkind"), Asc: rapid.Bool().Draw(t, "rasc")}
			if rapid.IntRange(0, 2).Draw(t, "rlatest") != 0 {
				op.V = 0
			} else {
				op.V = rapid.Int64Range(minRead, int64(v0)).Draw(t, "rv")
			}
			op.K = genKey(t, allKeys[len(allKeys)-1])
			if rapid.Bool().Draw(t, "rwkey") {
				// prefer a key the writer touches
				var wk [][]byte
				for _, wo := range c.Writer {
					if wo.Kind == "set" || wo.Kind == "remove" {
						wk = append(wk, wo.K)
					}
				}
				if len(wk) > 0 {
					op.K = rapid.SampledFrom(wk).Draw(t, "rwk")
				}
			}
			op.Keep = i > 0 && rapid.IntRange(0, 2).Draw(t, "rkeep") == 0
			script = append(script, op)
		}
		c.Readers = append(c.Readers, script)
	}
	if stress {
		c.Pauses = rapid.SliceOfN(rapid.SampledFrom([]int{0, 0, 0, 1, 1, 5, 50}), 8, 32).Draw(t, "pauses")
		return c
	}
	if rapid.IntRange(0, 2).Draw(t, "gated") != 0 {
		// reader R starts when the writer has reached point E for the n-th time; the writer stays parked there until
		// R has completed k steps: R runs strictly inside the writer's commit / prune protocol
		ev := rapid.SampledFrom([]string{"yield:SaveVersion:afterCommit", "yield:SaveVersion:afterCommit", "yield:deleteVersionsTo:afterVersion", "yield:deleteVersionsTo:beforeVersion", "db:BatchWrite"}).Draw(t, "gev")
		n := rapid.IntRange(1, 3).Draw(t, "gn")
		r := rapid.IntRange(1, nr).Draw(t, "gr")
		c.Plan = append(c.Plan, Directive{Thread: r, Event: "start", Nth: 1, Until: 0, UntilEvent: ev, Steps: n},
			Directive{Thread: 0, Event: ev, Nth: n, Until: r, Steps: rapid.IntRange(1, len(c.Readers[r-1])).Draw(t, "gk")})
	}
	np := rapid.IntRange(0, 3).Draw(t, "nplan")
	for i := 0; i < np; i++ {
		d := Directive{Event: rapid.SampledFrom(c06Events).Draw(t, "ev"), Nth: rapid.IntRange(1, 6).Draw(t, "nth"), Steps: rapid.IntRange(1, 4).Draw(t, "psteps")}
		if rapid.IntRange(0, 2).Draw(t, "who") != 0 {
			d.Thread = 0
			d.Until = rapid.IntRange(1, nr).Draw(t, "until")
		} else {
			d.Thread = rapid.IntRange(1, nr).Draw(t, "rthread")
			d.Until = 0
			if d.Event[:5] == "yield" {
				d.Event = "db:Get"
			}
		}
		c.Plan = append(c.Plan, d)
	}
	return c
}

func sortedInt64Keys(m map[int64]int) []int64 {
	out := make([]int64, 0, len(m))
	for k := range m {
		out = append(out, k)
	}
	sort.Slice(out, func(i, j int) bool { return out[i] < out[j] })
	return out
}

func pinnedIn(p map[int64]int, lo, hi int64) bool {
	for v := range p {
		if v >= lo && v <= hi {
			return true
		}
	}
	return false
}

// knownC06 classifies violations that are instances of the open finding F12.
func knownC06(c C06Case, v *Violation) string {
	// F12: a reader of the latest version between the writer's Commit and resetLatestVersion sees the fast index
	// of the next version: only fast-path reads (Get / Has via Get / Iterator) of "latest", index enabled
	if !c.Skip && strings.HasSuffix(v.Obs, ".transient_latest") {
		return "F12"
	}
	return ""
}

func TestC06Plan(t *testing.T) {
	rapid.Check(t, func(rt *rapid.T) {
		c := genC06(rt, false)
		v, st := runC06(c)
		if v != nil {
			if id := knownC06(c, v); id != "" && Open(id) {
				KnownHit("C06", id)
				return
			}
			reportViolation(rt, "C06", c, v)
		}
		Count("C06", "directives_honoured", st.honoured)
		Count("C06", "directives_unscheduled", st.unscheduled)
		Count("C06", "reader_steps_while_writer_parked", st.between)
		Count("C06", "reader_ops_checked", st.readerOps)
		Count("C06", "reads_through_a_kept_handle", st.keptReads)
		RecordCase("C06", c, st.between >= 1, map[string]bool{"async": c.Async, "fast_index": !c.Skip, "cache_on": c.Cache > 0, "unscheduled": st.unscheduled > 0, "plan": true})
	})
}

// TestC06Stress: real scheduler; meant to be built with -race.
func TestC06Stress(t *testing.T) {
	if p := os.Getenv("VERIF_GOMAXPROCS"); p != "" {
		n, _ := strconv.Atoi(p)
		defer runtime.GOMAXPROCS(runtime.GOMAXPROCS(n))
	}
	rapid.Check(t, func(rt *rapid.T) {
		c := genC06(rt, true)
		v, st := runC06(c)
		if v != nil {
			if id := knownC06(c, v); id != "" && Open(id) {
				KnownHit("C06", id)
				return
			}
			reportViolation(rt, "C06", c, v)
		}
		Count("C06", "reader_ops_checked", st.readerOps)
		Count("C06", "reads_through_a_kept_handle", st.keptReads)
		Count("C06", "stress_cases", 1)
		RecordCase("C06", c, len(c.Readers) >= 2, map[string]bool{"async": c.Async, "fast_index": !c.Skip, "cache_on": c.Cache > 0, "stress": true})
	})
}

func init() {
	customReplayers["C06"] = func(raw json.RawMessage) (*Violation, bool) {
		var c C06Case
		if err := json.Unmarshal(raw, &c); err != nil {
			return &Violation{Prop: "C06", Obs: "harness", Msg: err.Error()}, true
		}
		// schedules are reproducible only at the granularity of the plan: try a few times
		for i := 0; i < 5; i++ {
			if v, _ := runC06(c); v != nil {
				return v, true
			}
		}
		return nil, true
	}
}

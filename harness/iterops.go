package harness

// C08: the "iter" op checks every iteration interface of every tree state against the model.

import (
	"bytes"
	"fmt"

	corestore "cosmossdk.io/core/store"
	"github.com/cosmos/iavl"
)

func (o Op) bounds() (start, end []byte) {
	if !o.StartNil {
		start = o.Start
		if start == nil {
			start = []byte{}
		}
	}
	if !o.EndNil {
		end = o.End
		if end == nil {
			end = []byte{}
		}
	}
	return
}

// drainStrict walks an iterator through the whole corestore.Iterator protocol.
func drainStrict(it corestore.Iterator) ([]KV, error) {
	var out []KV
	for it.Valid() {
		if !it.Valid() {
			return out, fmt.Errorf("Valid() not stable")
		}
		k, v := it.Key(), it.Value()
		if k == nil {
			return out, fmt.Errorf("nil key on a valid iterator")
		}
		out = append(out, KV{cp(k), cp(v)})
		if len(out) > 100000 {
			return out, fmt.Errorf("iterator does not terminate")
		}
		it.Next()
	}
	if it.Valid() || it.Valid() {
		return out, fmt.Errorf("Valid() true again after exhaustion")
	}
	if err := it.Error(); err != nil {
		_ = it.Close()
		return out, fmt.Errorf("Error()=%v", err)
	}
	if err := it.Close(); err != nil {
		return out, fmt.Errorf("Close()=%v", err)
	}
	return out, nil
}

func orderOK(kvs []KV, asc bool) bool {
	for i := 1; i < len(kvs); i++ {
		c := bytes.Compare(kvs[i-1].K, kvs[i].K)
		if (asc && c >= 0) || (!asc && c <= 0) {
			return false
		}
	}
	return true
}

type rangeIface interface {
	Iterator(start, end []byte, ascending bool) (corestore.Iterator, error)
	Iterate(fn func(key []byte, value []byte) bool) (bool, error)
}

func (w *World) applyIter(op Op) *Violation {
	start, end := op.bounds()
	asc := op.Flag
	stopAt := int(op.N) - 1 // -1 = never stop
	// working state
	if v := w.iterState("working", w.Tree, w.Tree.ImmutableTree, w.WKV, start, end, asc, stopAt); v != nil {
		return v
	}
	for _, ver := range w.probeVersions() {
		vs, ok := w.Vers[ver]
		if !ok {
			continue
		}
		it, err := w.Tree.GetImmutable(ver)
		if err != nil {
			return w.viol("iter.getimmutable", "GetImmutable(%d): %v", ver, err)
		}
		if v := w.iterState(fmt.Sprintf("version %d", ver), it, it, vs.KV, start, end, asc, stopAt); v != nil {
			return v
		}
	}
	// non-triviality bookkeeping
	want := expectRange(w.WKV, start, end, asc, false)
	coincide := false
	for _, b := range [][]byte{start, end} {
		if b != nil {
			if _, ok := w.WKV[string(b)]; ok {
				coincide = true
			}
		}
	}
	splits := len(want) > 0 && len(want) < len(w.WKV)
	if (coincide || splits) && len(want) > 0 && len(want) < len(w.WKV) {
		w.Cnt["iter_nontrivial"]++
	}
	if w.Dirty {
		w.Labels["iter_on_dirty_working_tree"] = true
	}
	if !asc {
		w.Labels["iter_descending"] = true
	}
	if stopAt >= 0 && stopAt < len(want) {
		w.Labels["iter_stopped"] = true
	}
	w.Cnt["iter_queries"]++
	return nil
}

func (w *World) iterState(name string, src rangeIface, it *iavl.ImmutableTree, kv map[string][]byte, start, end []byte, asc bool, stopAt int) *Violation {
	want := expectRange(kv, start, end, asc, false)
	wantIncl := expectRange(kv, start, end, asc, true)
	desc := fmt.Sprintf("%s range [%q,%q) asc=%v", name, start, end, asc)
	if start == nil {
		desc += " start=nil"
	}
	if end == nil {
		desc += " end=nil"
	}
	// 1. the tree's own iterator (fast / unsaved-fast / walk, as the tree selects)
	i1, err := src.Iterator(start, end, asc)
	if err != nil {
		return w.viol("iter.iterator", "%s: Iterator: %v", desc, err)
	}
	got, err := drainStrict(i1)
	if err != nil || !eqKVs(got, want) || !orderOK(got, asc) {
		return w.viol("iter.iterator", "%s: Iterator=%s err=%v want %s", desc, fmtKVs(got), err, fmtKVs(want))
	}
	// 2. the tree-walk iterator
	got, err = drainStrict(iavl.NewIterator(start, end, asc, it))
	if err != nil || !eqKVs(got, want) {
		return w.viol("iter.walk", "%s: NewIterator=%s err=%v want %s", desc, fmtKVs(got), err, fmtKVs(want))
	}
	// 3. callbacks, with a stop point
	collect := func(wantSeq []KV, run func(fn func(k, v []byte) bool) bool) (string, bool) {
		var cb []KV
		stopped := run(func(k, v []byte) bool {
			cb = append(cb, KV{cp(k), cp(v)})
			return stopAt >= 0 && len(cb) == stopAt+1
		})
		exp := wantSeq
		expStopped := false
		if stopAt >= 0 && stopAt < len(wantSeq) {
			exp = wantSeq[:stopAt+1]
			expStopped = true
		}
		if !eqKVs(cb, exp) || stopped != expStopped {
			return fmt.Sprintf("callbacks=%s stopped=%v want %s stopped=%v (stop point %d)", fmtKVs(cb), stopped, fmtKVs(exp), expStopped, stopAt), false
		}
		return "", true
	}
	if msg, ok := collect(want, func(fn func(k, v []byte) bool) bool { return it.IterateRange(start, end, asc, fn) }); !ok {
		return w.viol("iter.iteraterange", "%s: IterateRange %s", desc, msg)
	}
	if msg, ok := collect(wantIncl, func(fn func(k, v []byte) bool) bool {
		return it.IterateRangeInclusive(start, end, asc, func(k, v []byte, _ int64) bool { return fn(k, v) })
	}); !ok {
		return w.viol("iter.iteraterangeinclusive", "%s: IterateRangeInclusive %s", desc, msg)
	}
	all := expectRange(kv, nil, nil, true, false)
	var ierr error
	if msg, ok := collect(all, func(fn func(k, v []byte) bool) bool {
		st, err := src.Iterate(fn)
		ierr = err
		return st
	}); !ok || ierr != nil {
		return w.viol("iter.iterate", "%s: Iterate %s err=%v", name, msg, ierr)
	}
	return nil
}

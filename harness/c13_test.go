//go:build verif

package harness

// C13 (b) independent encoder -> library, (c) decoder totality (rapid mutation + native fuzz targets).

import (
	"bytes"
	"encoding/binary"
	"encoding/json"
	"fmt"
	"os"
	"runtime"
	"testing"

	"github.com/cosmos/iavl"
	dbm "github.com/cosmos/iavl/db"
	"github.com/cosmos/iavl/fastnode"
	"pgregory.net/rapid"
)

// ---------------------------------------------------------------- (b)

type C13bCase struct {
	Prop      string `json:"property"`
	Kind      string `json:"kind"` // encoder
	Scheme    int    `json:"scheme"`
	WithIndex bool   `json:"with_index"`
	OldRef    bool   `json:"old_ref"` // write reference roots in the 9-byte pre-lazy-pruning form
	Cfg       Cfg    `json:"cfg"`
	Pre       []Op   `json:"pre"` // set | remove | save executed on the model and written by the independent encoder
	Ops       []Op   `json:"ops"` // continuation executed by the library
}

func runC13b(c C13bCase, gen func(w *World) (Op, bool)) (v *Violation, w *World) {
	// NB: no recover around gen(): rapid uses panics for control flow inside draws
	db := dbm.NewMemDB()
	enc := NewRefEncoder(db, c.Scheme)
	obs := Observers{Reads: true, Hash: true, Fields: true, Audit: true, Proofs: true}
	w = &World{Prop: "C13", Backend: "mem", Cfg: c.Cfg, Obs: obs, Vers: map[int64]*VerState{}, WKV: map[string][]byte{},
		WTouched: map[string]bool{}, Labels: map[string]bool{}, Excl: map[string]int{}, Cnt: map[string]int{}}
	w.Parent, w.DB = db, db
	var ver int64
	for _, op := range c.Pre {
		switch op.Kind {
		case "set":
			val := op.V
			if val == nil {
				val = []byte{}
			}
			w.WRoot, _ = rset(w.WRoot, op.K, val)
			w.WKV[string(op.K)] = val
		case "remove":
			if _, ok := w.WKV[string(op.K)]; ok {
				w.WRoot, _, _, _ = rremove(w.WRoot, op.K)
				delete(w.WKV, string(op.K))
			}
		case "save":
			ver++
			rhash(w.WRoot, ver, true)
			if c.OldRef && w.WRoot != nil && w.WRoot.Version != ver {
				// pre-lazy-pruning reference: 's' + 8-byte version, only valid when the referenced node is a root
				k := enc.keys[w.WRoot]
				if k[1] == 1 {
					b := make([]byte, 9)
					b[0] = 's'
					binary.BigEndian.PutUint64(b[1:], uint64(k[0]))
					_ = db.Set([]byte(nk(ver, 1)), b)
					w.Labels["old_reference_root"] = true
				} else {
					enc.Commit(w.WRoot, ver)
				}
			} else {
				enc.Commit(w.WRoot, ver)
			}
			w.Vers[ver] = &VerState{Root: w.WRoot, KV: copyKV(w.WKV), Touched: map[string]bool{}}
			if w.WRoot == nil {
				w.Labels["encoded_empty_root"] = true
			} else if w.WRoot.Version != ver {
				w.Labels["encoded_reference_root"] = true
			}
			if w.WRoot != nil && !w.WRoot.leaf() {
				w.Labels["encoded_inner"] = true
			}
		}
	}
	if ver == 0 {
		return nil, w
	}
	w.First, w.Latest, w.Cur, w.Base = 1, ver, ver, 1
	w.setWorkingFrom(ver)
	if c.WithIndex {
		for k, val := range w.Vers[ver].KV {
			_ = db.Set(append([]byte("f"), k...), EncodeFastNode(ver, val))
		}
		_ = db.Set([]byte("mstorage_version"), []byte(fmt.Sprintf("1.1.0-%d", ver)))
		w.EverFast, w.IndexLabel = true, ver
	}
	w.rememberInitialCfg()
	w.newTree()
	var lv int64
	var err error
	func() {
		defer func() {
			if r := recover(); r != nil {
				err = fmt.Errorf("panic: %v", r)
			}
		}()
		lv, err = w.Tree.Load()
	}()
	if err != nil || lv != ver {
		return w.viol("encoder_db.load", "library Load() of the independently encoded database = %d,%v want %d", lv, err, ver), w
	}
	if !c.Cfg.SkipFast {
		w.EverFast, w.IndexLabel = true, ver
	}
	if x := w.Observe(); x != nil {
		x.Obs = "encoder_db." + x.Obs
		return x, w
	}
	step := func(op Op) *Violation {
		if x := w.Apply(op); x != nil {
			return x
		}
		w.trackIndex(op)
		return w.Observe()
	}
	if gen != nil {
		for {
			op, ok := gen(w)
			if !ok {
				break
			}
			c.Ops = append(c.Ops, op)
			if x := step(op); x != nil {
				return x, w
			}
		}
	} else {
		for _, op := range c.Ops {
			if x := step(op); x != nil {
				return x, w
			}
		}
	}
	return nil, w
}

var c13bProfile = &Profile{W: weights(map[string]int{"prune": 10, "save": 22, "lvfo": 2, "dvf": 1, "setnil": 0, "reopen": 6}), NoInitVer: true}

func TestC13b(t *testing.T) {
	rapid.Check(t, func(rt *rapid.T) {
		c := C13bCase{Prop: "C13", Kind: "encoder", Scheme: rapid.IntRange(0, 1).Draw(rt, "scheme"), WithIndex: rapid.Bool().Draw(rt, "withIndex"),
			OldRef: rapid.IntRange(0, 3).Draw(rt, "oldRef") == 0, Cfg: genCfg(rt, false)}
		work := map[string][]byte{}
		nver := rapid.IntRange(1, 6).Draw(rt, "nver")
		for v := 1; v <= nver; v++ {
			n := rapid.IntRange(0, 6).Draw(rt, "nops")
			for i := 0; i < n; i++ {
				if rapid.IntRange(0, 3).Draw(rt, "rm") == 0 {
					k := genRemoveKey(rt, work)
					delete(work, string(k))
					c.Pre = append(c.Pre, Op{Kind: "remove", K: k})
				} else {
					k, val := genKey(rt, work), genValue(rt)
					work[string(k)] = val
					c.Pre = append(c.Pre, Op{Kind: "set", K: k, V: val})
				}
			}
			c.Pre = append(c.Pre, Op{Kind: "save"})
		}
		steps := rapid.IntRange(3, 20).Draw(rt, "steps")
		i := 0
		var ops []Op
		v, w := runC13b(c, func(w *World) (Op, bool) {
			if i >= steps {
				return Op{}, false
			}
			i++
			op := GenOp(rt, w, c13bProfile)
			ops = append(ops, op)
			return op, true
		})
		c.Ops = ops
		if v != nil {
			reportViolation(rt, "C13", c, v)
		}
		w.Labels["encoder_case"] = true
		RecordCase("C13", c, w.Labels["encoded_inner"] && (w.Labels["encoded_reference_root"] || w.Labels["encoded_empty_root"]), w.Labels)
		Count("C13", "encoder_databases", 1)
	})
}

// ---------------------------------------------------------------- (c) decoder totality

type DecodeCase struct {
	Prop   string `json:"property"`
	Kind   string `json:"kind"` // decode
	Target string `json:"target"`
	NK     []byte `json:"nk,omitempty"`
	Buf    []byte `json:"buf"`
}

func memUse() uint64 {
	var m runtime.MemStats
	runtime.ReadMemStats(&m)
	return m.TotalAlloc
}

// checkDecode runs one decoder on arbitrary bytes: error-or-value, never panic, bounded allocation, and a
// successful decode agrees with the independent decoder.
func checkDecode(c DecodeCase) (v *Violation, decoded bool) {
	defer func() {
		if r := recover(); r != nil {
			v = &Violation{Prop: "C13", Obs: "decode.panic." + c.Target, Msg: fmt.Sprintf("%s panicked on %x: %v", c.Target, c.Buf, r)}
		}
	}()
	viol := func(f string, a ...any) *Violation {
		return &Violation{Prop: "C13", Obs: "decode." + c.Target, Msg: fmt.Sprintf(f, a...)}
	}
	measure := len(c.Buf) < 4096
	var m0 uint64
	if measure && allocCheck {
		m0 = memUse()
	}
	defer func() {
		if v == nil && measure && allocCheck {
			if d := memUse() - m0; d > 64<<20 {
				v = viol("%s allocated %d bytes for a %d-byte input %x", c.Target, d, len(c.Buf), c.Buf)
			}
		}
	}()
	switch c.Target {
	case "MakeNode":
		nkb := c.NK
		if len(nkb) != 12 {
			nkb = append(append([]byte{}, nkb...), make([]byte, 12)...)[:12]
		}
		n, err := iavl.MakeNode(nkb, c.Buf)
		key := append([]byte("s"), nkb...)
		d, derr := decodeHybridNew(key, c.Buf)
		if err != nil {
			return nil, false
		}
		info := iavl.VerifNodeInfoOf(n)
		if derr != nil {
			// the library accepted something the strict independent decoder rejects: only tolerated
			// differences are trailing bytes / hash length / mode, which are not format violations the
			// library promises to detect. No assertion.
			return nil, true
		}
		if info.Height != d.Height || info.Size != d.Size || !bytes.Equal(info.Key, d.Key) || !bytes.Equal(info.Value, d.Value) && d.Height == 0 {
			return viol("MakeNode(%x) = h=%d size=%d key=%q value=%q; independent decoder: h=%d size=%d key=%q value=%q", c.Buf, info.Height, info.Size, info.Key, info.Value, d.Height, d.Size, d.Key, d.Value), true
		}
		if d.Height > 0 {
			link := func(c childRef) string {
				if c.Hash != nil {
					return string(c.Hash) // legacy child: the node key is the 32-byte hash itself
				}
				return nk(c.Ver, c.Nonce)[1:]
			}
			if !bytes.Equal(info.Hash, d.Hash) || string(info.LeftKey) != link(d.Left) || string(info.RightKey) != link(d.Right) {
				return viol("MakeNode(%x): child links / hash differ from the independent decoder (mode %d): left %x want %x, right %x want %x", c.Buf, d.Mode, info.LeftKey, link(d.Left), info.RightKey, link(d.Right)), true
			}
		}
		return nil, true
	case "MakeLegacyNode":
		h := c.NK
		if len(h) != 32 {
			h = append(append([]byte{}, h...), make([]byte, 32)...)[:32]
		}
		n, err := iavl.MakeLegacyNode(h, c.Buf)
		if err == nil && n == nil {
			return viol("MakeLegacyNode returned nil, nil"), false
		}
		return nil, err == nil
	case "DeserializeNode":
		key := c.NK
		n, err := fastnode.DeserializeNode(key, c.Buf)
		if err != nil {
			return nil, false
		}
		ver, val, ok := fastValue(c.Buf)
		if ok && (n.GetVersionLastUpdatedAt() != ver || !bytes.Equal(n.GetValue(), val) || !bytes.Equal(n.GetKey(), key)) {
			return viol("DeserializeNode(%x) = ver %d value %q; independent decoder ver %d value %q", c.Buf, n.GetVersionLastUpdatedAt(), n.GetValue(), ver, val), true
		}
		return nil, true
	case "DecodeBytes":
		b, n, err := iavl.VerifDecodeBytes(c.Buf)
		if err != nil {
			return nil, false
		}
		if n < 0 || n > len(c.Buf) || len(b) > len(c.Buf) {
			return viol("DecodeBytes(%x) = %d bytes, consumed %d of %d", c.Buf, len(b), n, len(c.Buf)), true
		}
		want, _, derr := rdBytes(c.Buf)
		if derr != nil || !bytes.Equal(want, b) {
			return viol("DecodeBytes(%x) = %x, independent decoder %x,%v", c.Buf, b, want, derr), true
		}
		return nil, true
	case "DecodeUvarint":
		u, n, err := iavl.VerifDecodeUvarint(c.Buf)
		if err != nil {
			return nil, false
		}
		w, m := binary.Uvarint(c.Buf)
		if m != n || w != u || n <= 0 {
			return viol("DecodeUvarint(%x) = %d,%d; encoding/binary %d,%d", c.Buf, u, n, w, m), true
		}
		return nil, true
	case "DecodeVarint":
		i, n, err := iavl.VerifDecodeVarint(c.Buf)
		if err != nil {
			return nil, false
		}
		w, m := binary.Varint(c.Buf)
		if m != n || w != i || n <= 0 {
			return viol("DecodeVarint(%x) = %d,%d; encoding/binary %d,%d", c.Buf, i, n, w, m), true
		}
		return nil, true
	case "RootReader":
		// arbitrary bytes stored at a root key, then GetImmutable / LoadVersion / VersionExists
		db := dbm.NewMemDB()
		// a valid version 1 with a single leaf so that references can resolve
		leaf := &RNode{Key: []byte("a"), Value: []byte("1"), Size: 1, Version: 1}
		_ = db.Set([]byte(nk(1, 1)), EncodeNodeBody(leaf, [2]int64{}, [2]int64{}))
		_ = db.Set([]byte(nk(2, 1)), c.Buf)
		// the reader of root markers: Load / GetImmutable / LoadVersion / version queries. What is done with a tree whose
		// root bytes happen to decode as a (structurally meaningless) node - following its child keys - is not part of
		// "decoder totality": a first version of this target also called Get/Iterate/Hash on the result and met an
		// index-out-of-range in GetNode for a child key of impossible length and an endless descent through a node that
		// names itself as its child; both need a corrupt database, not a decoder input, and are not asserted.
		tr := iavl.NewMutableTree(db, 0, true, iavl.NewNopLogger())
		_, lerr := tr.Load()
		_, gerr := tr.GetImmutable(2)
		_ = tr.VersionExists(2)
		_ = tr.AvailableVersions()
		tr2 := iavl.NewMutableTree(db, 0, true, iavl.NewNopLogger())
		_, _ = tr2.LoadVersion(2)
		return nil, lerr == nil && gerr == nil
	}
	return viol("unknown target"), false
}

var allocCheck = true

var decodeTargets = []string{"MakeNode", "MakeNode", "MakeLegacyNode", "DeserializeNode", "DecodeBytes", "DecodeUvarint", "DecodeVarint", "RootReader", "RootReader"}

var hostileConstants = [][]byte{
	{0xff, 0xff, 0xff, 0xff, 0xff, 0xff, 0xff, 0xff, 0xff, 0x01},       // max uvarint
	{0xff, 0xff, 0xff, 0xff, 0xff, 0xff, 0xff, 0xff, 0xff, 0x7f},       // overflowing varint
	{0x80, 0x80, 0x80, 0x80, 0x80, 0x80, 0x80, 0x80, 0x80, 0x80, 0x80}, // too long
	{0x80, 0x80, 0x80, 0x80, 0x80, 0x80, 0x80, 0x80, 0x40},             // 2^62 (length = 2^62)
	{0xfe, 0xff, 0xff, 0xff, 0x0f},                                     // 2^32-2
	{0x80}, {}, {0x00}, {0x01}, {0x7f},
}

// validEncoding draws a valid encoding for the target (from the independent encoder).
func validEncoding(t *rapid.T, target string) (nkb, buf []byte) {
	switch target {
	case "MakeNode", "MakeLegacyNode":
		ver := rapid.Int64Range(1, 300).Draw(t, "ver")
		nkb = []byte(nk(ver, uint32(rapid.IntRange(0, 5).Draw(t, "nonce"))))[1:]
		if rapid.Bool().Draw(t, "leaf") {
			leaf := &RNode{Key: genKey(t, nil), Value: genValue(t), Size: 1}
			buf = EncodeNodeBody(leaf, [2]int64{}, [2]int64{})
		} else {
			h := rapid.SliceOfN(rapid.Byte(), 32, 32).Draw(t, "hash")
			in := &RNode{Key: genKey(t, nil), Height: int8(rapid.IntRange(1, 30).Draw(t, "h")), Size: rapid.Int64Range(2, 1<<40).Draw(t, "size"), Hash: h}
			l := [2]int64{rapid.Int64Range(1, 300).Draw(t, "lv"), rapid.Int64Range(1, 1<<20).Draw(t, "ln")}
			r := [2]int64{rapid.Int64Range(1, 300).Draw(t, "rv"), rapid.Int64Range(1, 1<<20).Draw(t, "rn")}
			// hybrid forms (a store migrated from the legacy layout): either child may be named by its 32-byte hash
			var lh, rh []byte
			switch rapid.IntRange(0, 5).Draw(t, "mode") {
			case 1:
				lh = rapid.SliceOfN(rapid.Byte(), 32, 32).Draw(t, "lh32")
			case 2:
				rh = rapid.SliceOfN(rapid.Byte(), 32, 32).Draw(t, "rh32")
			case 3:
				lh = rapid.SliceOfN(rapid.Byte(), 32, 32).Draw(t, "lh32")
				rh = rapid.SliceOfN(rapid.Byte(), 32, 32).Draw(t, "rh32")
			}
			buf = EncodeHybridInner(in, l, r, lh, rh)
		}
		if target == "MakeLegacyNode" {
			nkb = rapid.SliceOfN(rapid.Byte(), 32, 32).Draw(t, "lhash")
			// legacy layout: height, size, version, key, (value | lefthash, righthash)
			var b bytes.Buffer
			putVarint(&b, int64(rapid.IntRange(0, 3).Draw(t, "lh")))
			putVarint(&b, rapid.Int64Range(1, 100).Draw(t, "ls"))
			putVarint(&b, ver)
			putBytes(&b, genKey(t, nil))
			putBytes(&b, rapid.SliceOfN(rapid.Byte(), 0, 32).Draw(t, "x1"))
			putBytes(&b, rapid.SliceOfN(rapid.Byte(), 0, 32).Draw(t, "x2"))
			buf = b.Bytes()
		}
	case "DeserializeNode":
		nkb = genKey(t, nil)
		buf = EncodeFastNode(rapid.Int64Range(0, 1<<40).Draw(t, "fv"), genValue(t))
	case "DecodeBytes":
		var b bytes.Buffer
		putBytes(&b, rapid.SliceOfN(rapid.Byte(), 0, 200).Draw(t, "bz"))
		buf = b.Bytes()
	case "DecodeUvarint":
		var b bytes.Buffer
		putUvarint(&b, rapid.Uint64().Draw(t, "u"))
		buf = b.Bytes()
	case "DecodeVarint":
		var b bytes.Buffer
		putVarint(&b, rapid.Int64().Draw(t, "i"))
		buf = b.Bytes()
	case "RootReader":
		switch rapid.IntRange(0, 4).Draw(t, "rr") {
		case 0:
			buf = []byte(nk(1, 1)) // reference root
		case 1:
			buf = []byte(nk(1, 1))[:9] // old-style reference
		case 2:
			buf = []byte{}
		case 3:
			buf = []byte(nk(rapid.Int64Range(0, 3).Draw(t, "rv"), uint32(rapid.IntRange(0, 2).Draw(t, "rn"))))
		default:
			leaf := &RNode{Key: []byte("b"), Value: []byte("2"), Size: 1}
			buf = EncodeNodeBody(leaf, [2]int64{}, [2]int64{})
		}
	}
	return
}

func mutateBytes(t *rapid.T, b []byte) []byte {
	b = append([]byte{}, b...)
	n := rapid.IntRange(0, 3).Draw(t, "nmut")
	for i := 0; i < n; i++ {
		switch rapid.IntRange(0, 6).Draw(t, "mk") {
		case 0:
			if len(b) > 0 {
				b[rapid.IntRange(0, len(b)-1).Draw(t, "pos")] = rapid.Byte().Draw(t, "byte")
			}
		case 1:
			if len(b) > 0 {
				b = b[:rapid.IntRange(0, len(b)-1).Draw(t, "cut")]
			}
		case 2:
			pos := rapid.IntRange(0, len(b)).Draw(t, "ins")
			c := rapid.SampledFrom(hostileConstants).Draw(t, "const")
			b = append(b[:pos:pos], append(append([]byte{}, c...), b[pos:]...)...)
		case 3:
			b = append(b, rapid.SliceOfN(rapid.Byte(), 1, 8).Draw(t, "tail")...)
		case 4:
			if len(b) > 1 {
				pos := rapid.IntRange(0, len(b)-1).Draw(t, "del")
				b = append(b[:pos:pos], b[pos+1:]...)
			}
		case 5:
			if len(b) > 0 {
				b[rapid.IntRange(0, len(b)-1).Draw(t, "flip")] ^= 1 << uint(rapid.IntRange(0, 7).Draw(t, "bit"))
			}
		case 6:
			b = rapid.SliceOfN(rapid.Byte(), 0, 40).Draw(t, "rand")
		}
	}
	return b
}

func TestC13c(t *testing.T) {
	rapid.Check(t, func(rt *rapid.T) {
		target := rapid.SampledFrom(decodeTargets).Draw(rt, "target")
		nkb, buf := validEncoding(rt, target)
		valid := append([]byte{}, buf...)
		buf = mutateBytes(rt, buf)
		c := DecodeCase{Prop: "C13", Kind: "decode", Target: target, NK: nkb, Buf: buf}
		// the case is saved before the decoder runs: a runtime abort (out of memory, stack overflow) cannot be
		// recovered in-process, and the driver then takes this file as the replay input
		if p := os.Getenv("VERIF_PENDING"); p != "" {
			if raw, err := json.Marshal(c); err == nil {
				_ = os.WriteFile(p, raw, 0o644)
			}
		}
		v, decoded := checkDecode(c)
		if v != nil {
			reportViolation(rt, "C13", c, v)
		}
		mutated := !bytes.Equal(valid, buf)
		RecordCase("C13", c, mutated && len(buf) > 2, map[string]bool{"decode_" + target: true, "decode_accepted": decoded, "decode_mutated": mutated})
		Count("C13", "decoder_inputs", 1)
	})
	if p := os.Getenv("VERIF_PENDING"); p != "" {
		_ = os.Remove(p)
	}
}

func init() {
	customReplayers["C13"] = func(raw json.RawMessage) (*Violation, bool) {
		var head struct {
			Kind string `json:"kind"`
		}
		_ = json.Unmarshal(raw, &head)
		switch head.Kind {
		case "decode":
			var c DecodeCase
			if err := json.Unmarshal(raw, &c); err != nil {
				return &Violation{Prop: "C13", Obs: "harness", Msg: err.Error()}, true
			}
			v, _ := checkDecode(c)
			return v, true
		case "encoder":
			var c C13bCase
			if err := json.Unmarshal(raw, &c); err != nil {
				return &Violation{Prop: "C13", Obs: "harness", Msg: err.Error()}, true
			}
			v, _ := runC13b(c, nil)
			return v, true
		}
		return nil, false
	}
}

// ---------------------------------------------------------------- native fuzz targets (thorough tier)

func fuzzDecode(f *testing.F, target string) {
	allocCheck = false // ReadMemStats per exec is too slow under the fuzzer; the rapid tier measures it
	for _, c := range hostileConstants {
		f.Add([]byte{1, 2, 3}, c)
	}
	leaf := EncodeNodeBody(&RNode{Key: []byte("key"), Value: []byte("value"), Size: 1}, [2]int64{}, [2]int64{})
	inner := EncodeNodeBody(&RNode{Key: []byte("key"), Height: 2, Size: 3, Hash: bytes.Repeat([]byte{7}, 32)}, [2]int64{1, 2}, [2]int64{3, 4})
	f.Add([]byte(nk(3, 1))[1:], leaf)
	f.Add([]byte(nk(3, 1))[1:], inner)
	f.Add([]byte("k"), EncodeFastNode(5, []byte("v")))
	f.Add([]byte{}, []byte(nk(1, 1)))
	f.Fuzz(func(t *testing.T, nkb, buf []byte) {
		if len(buf) > 1<<16 {
			return
		}
		c := DecodeCase{Prop: "C13", Kind: "decode", Target: target, NK: nkb, Buf: buf}
		if v, _ := checkDecode(c); v != nil {
			reportViolation(t, "C13", c, v) // writes the JSON replay file next to the fuzzer's own crasher file
		}
	})
}

func FuzzMakeNode(f *testing.F)        { fuzzDecode(f, "MakeNode") }
func FuzzMakeLegacyNode(f *testing.F)  { fuzzDecode(f, "MakeLegacyNode") }
func FuzzDeserializeNode(f *testing.F) { fuzzDecode(f, "DeserializeNode") }
func FuzzDecodeBytes(f *testing.F)     { fuzzDecode(f, "DecodeBytes") }
func FuzzDecodeVarint(f *testing.F)    { fuzzDecode(f, "DecodeVarint") }
func FuzzDecodeUvarint(f *testing.F)   { fuzzDecode(f, "DecodeUvarint") }
func FuzzRootReader(f *testing.F)      { fuzzDecode(f, "RootReader") }

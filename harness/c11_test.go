package harness

// C11: every version is a balanced ordered tree; rank/key lookups are inverse; reads cost O(height).

import (
	"bytes"
	"encoding/json"
	"fmt"
	"math"
	"os"
	"sort"
	"strconv"
	"testing"

	"github.com/cosmos/iavl"
	"pgregory.net/rapid"
)

type C11Op struct {
	Kind string `json:"op"` // set | remove | save
	K    string `json:"k,omitempty"`
}

type C11Case struct {
	Prop   string  `json:"property"`
	Mode   string  `json:"mode"`
	Ops    []C11Op `json:"ops"`
	Probes []int   `json:"probes"` // rank probes (mod size) for read counting
	Fast   bool    `json:"fast,omitempty"` // fast index enabled (lookups of the latest version may be answered by it)
}

func genC11(t *rapid.T) C11Case {
	maxKeys := 300
	if os.Getenv("VERIF_TIER") == "thorough" {
		maxKeys = 3000
	}
	if s := os.Getenv("VERIF_C11_MAXKEYS"); s != "" {
		maxKeys, _ = strconv.Atoi(s)
	}
	c := C11Case{Prop: "C11", Mode: rapid.SampledFrom([]string{"asc", "desc", "alternate", "random", "random", "empty_subtree"}).Draw(t, "mode")}
	n := rapid.IntRange(1, maxKeys).Draw(t, "n")
	if rapid.IntRange(0, 2).Draw(t, "small") == 0 {
		n = rapid.IntRange(1, 40).Draw(t, "nsmall")
	}
	saveEvery := rapid.IntRange(1, n).Draw(t, "saveEvery")
	key := func(i int) string { return fmt.Sprintf("k%05d", i) }
	for i := 0; i < n; i++ {
		switch c.Mode {
		case "asc":
			c.Ops = append(c.Ops, C11Op{"set", key(i)})
		case "desc":
			c.Ops = append(c.Ops, C11Op{"set", key(99999 - i)})
		case "alternate":
			if i%2 == 0 {
				c.Ops = append(c.Ops, C11Op{"set", key(i)})
			} else {
				c.Ops = append(c.Ops, C11Op{"set", key(99999 - i)})
			}
		case "random":
			k := key(rapid.IntRange(0, 2*n).Draw(t, "rk"))
			if rapid.IntRange(0, 3).Draw(t, "rm") == 0 {
				c.Ops = append(c.Ops, C11Op{"remove", k})
			} else {
				c.Ops = append(c.Ops, C11Op{"set", k})
			}
		case "empty_subtree":
			c.Ops = append(c.Ops, C11Op{"set", key(i)})
		}
		if (i+1)%saveEvery == 0 {
			c.Ops = append(c.Ops, C11Op{Kind: "save"})
		}
	}
	if c.Mode == "empty_subtree" {
		// remove a contiguous run: empties whole subtrees on one side
		lo := rapid.IntRange(0, n-1).Draw(t, "lo")
		hi := rapid.IntRange(lo, n-1).Draw(t, "hi")
		for i := lo; i <= hi; i++ {
			c.Ops = append(c.Ops, C11Op{"remove", key(i)})
			if rapid.IntRange(0, 15).Draw(t, "sv") == 0 {
				c.Ops = append(c.Ops, C11Op{Kind: "save"})
			}
		}
	}
	// the empty key is a legal key and the smallest one: rank 0 wherever it is stored
	if rapid.IntRange(0, 3).Draw(t, "emptyKey") == 0 {
		pos := rapid.IntRange(0, len(c.Ops)).Draw(t, "emptyPos")
		c.Ops = append(c.Ops[:pos:pos], append([]C11Op{{Kind: "set", K: ""}}, c.Ops[pos:]...)...)
		if rapid.Bool().Draw(t, "emptyRemoved") {
			pos2 := rapid.IntRange(pos+1, len(c.Ops)).Draw(t, "emptyPos2")
			c.Ops = append(c.Ops[:pos2:pos2], append([]C11Op{{Kind: "remove", K: ""}}, c.Ops[pos2:]...)...)
		}
	}
	if rapid.Bool().Draw(t, "finalSave") {
		c.Ops = append(c.Ops, C11Op{Kind: "save"})
	}
	c.Probes = rapid.SliceOfN(rapid.IntRange(0, 1<<20), 3, 6).Draw(t, "probes")
	c.Fast = rapid.IntRange(0, 2).Draw(t, "fast") == 0
	return c
}

type c11Stats struct {
	maxSize   int
	doubleRot int
	versions  int
	maxRatio  map[string]float64
}

func runC11(c C11Case) (v *Violation, st c11Stats) {
	defer func() {
		if r := recover(); r != nil {
			v = &Violation{Prop: "C11", Obs: "panic", Msg: fmt.Sprint(r)}
		}
	}()
	st.maxRatio = map[string]float64{}
	viol := func(obs, f string, a ...any) *Violation { return &Violation{Prop: "C11", Obs: obs, Msg: fmt.Sprintf(f, a...)} }
	db := NewTraceDB()
	db.NoJournal = true
	tr := iavl.NewMutableTree(db, 0, !c.Fast, iavl.NewNopLogger())
	if _, err := tr.Load(); err != nil {
		return viol("harness", "%v", err), st
	}
	cnt0 := refCnt
	work := map[string][]byte{}
	var wroot *RNode
	type verT struct {
		root *RNode
		kv   map[string][]byte
	}
	vers := map[int64]verT{}
	var latest int64
	val := []byte("v")
	var gone map[string][]byte
	type lookups interface {
		Size() int64
		Height() int8
		Get(key []byte) ([]byte, error)
		Has(key []byte) (bool, error)
		GetWithIndex(key []byte) (int64, []byte, error)
		GetByIndex(index int64) ([]byte, []byte, error)
	}
	checkTree := func(name string, it lookups, kv map[string][]byte, root *RNode, fresh func() *iavl.ImmutableTree) *Violation {
		skv := sortedKVs(kv)
		sz, h := it.Size(), int(it.Height())
		if sz != int64(len(skv)) {
			return viol("size", "%s: Size=%d want %d", name, sz, len(skv))
		}
		if sz > int64(st.maxSize) {
			st.maxSize = int(sz)
		}
		if sz == 0 {
			return nil
		}
		if int8(h) != rheight(root) {
			return viol("height", "%s: Height=%d, reference tree has %d", name, h, rheight(root))
		}
		bound := 1.4405 * math.Log2(float64(sz)+2)
		if float64(h) > bound {
			return viol("balance", "%s: height %d > 1.4405*log2(%d+2) = %.2f", name, h, sz, bound)
		}
		for i, e := range skv {
			idx, v2, err := it.GetWithIndex(e.K)
			if err != nil || idx != int64(i) || !bytes.Equal(v2, e.V) || v2 == nil {
				// (a nil value is GetWithIndex's answer for an ABSENT key)
				return viol("rank", "%s: GetWithIndex(%q)=%d,%q,nil=%v,%v want rank %d value %q", name, e.K, idx, v2, v2 == nil, err, i, e.V)
			}
			k2, v3, err := it.GetByIndex(int64(i))
			if err != nil || !bytes.Equal(k2, e.K) || !bytes.Equal(v3, e.V) || k2 == nil || v3 == nil {
				// (nil key / nil value is GetByIndex's answer for a rank that is OUT OF RANGE)
				return viol("rank", "%s: GetByIndex(%d)=%q,%q,nil=%v/%v,%v want %q,%q", name, i, k2, v3, k2 == nil, v3 == nil, err, e.K, e.V)
			}
			// the existence test and the lookup by key agree with the lookup by rank
			if has, err := it.Has(e.K); err != nil || !has {
				return viol("rank", "%s: Has(%q)=%v,%v although GetByIndex(%d) returns the key", name, e.K, has, err, i)
			}
			if g, err := it.Get(e.K); err != nil || !bytes.Equal(g, e.V) || g == nil {
				return viol("rank", "%s: Get(%q)=%q,%v although GetByIndex(%d) returns the key", name, e.K, g, err, i)
			}
			// absent neighbour: insertion rank
			ak := append(cp(e.K), 0)
			if _, ok := kv[string(ak)]; !ok {
				idx, v2, err := it.GetWithIndex(ak)
				if err != nil || v2 != nil || idx != int64(i+1) {
					return viol("rank", "%s: GetWithIndex(absent %q)=%d,%q,%v want %d,nil", name, ak, idx, v2, err, i+1)
				}
			}
		}
		for k := range gone {
			// keys of the last committed version that the tree under test no longer holds
			if _, ok := kv[k]; ok {
				continue
			}
			idx, v2, err := it.GetWithIndex([]byte(k))
			has, herr := it.Has([]byte(k))
			g, gerr := it.Get([]byte(k))
			if err != nil || herr != nil || gerr != nil || v2 != nil || has || g != nil {
				return viol("rank", "%s: removed key %q: GetWithIndex=%d,%q,%v Has=%v,%v Get=%q,%v (all must report absence)", name, k, idx, v2, err, has, herr, g, gerr)
			}
		}
		for _, oob := range []int64{sz, sz + 5, -1} {
			if k, v2, _ := it.GetByIndex(oob); k != nil || v2 != nil {
				return viol("rank", "%s: GetByIndex(%d) out of range (size %d) = %q,%q", name, oob, sz, k, v2)
			}
		}
		below := int64(0)
		if _, ok := kv[""]; ok {
			below = 1 // the empty key sorts before everything
		}
		if idx, v2, err := it.GetWithIndex([]byte("a")); err != nil || v2 != nil || idx != below {
			return viol("rank", "%s: GetWithIndex(below the k-keys)=%d,%q,%v want %d", name, idx, v2, err, below)
		}
		if idx, v2, err := it.GetWithIndex([]byte("z")); err != nil || v2 != nil || idx != sz {
			return viol("rank", "%s: GetWithIndex(above max)=%d,%q,%v want %d", name, idx, v2, err, sz)
		}
		if fresh == nil {
			return nil
		}
		// storage reads with nothing cached (cache size 0, fresh tree object per measurement)
		for _, p := range c.Probes {
			probe := p % len(skv)
			key := skv[probe].K
			measure := func(op string, lim int, f func(t *iavl.ImmutableTree) error) *Violation {
				ft := fresh()
				r0 := db.Reads
				if err := f(ft); err != nil {
					return viol("reads", "%s: %s(%q): %v", name, op, key, err)
				}
				r := db.Reads - r0
				if r > lim {
					return viol("reads", "%s: %s(%q) read %d stored nodes > bound %d (height %d, size %d)", name, op, key, r, lim, h, sz)
				}
				if x := float64(r) / float64(h+1); x > st.maxRatio[op] {
					st.maxRatio[op] = x
				}
				return nil
			}
			if x := measure("Get", 2*h+2, func(t *iavl.ImmutableTree) error { _, err := t.Get(key); return err }); x != nil {
				return x
			}
			if x := measure("Has", 2*h+2, func(t *iavl.ImmutableTree) error { _, err := t.Has(key); return err }); x != nil {
				return x
			}
			if x := measure("GetWithIndex", 2*h+2, func(t *iavl.ImmutableTree) error { _, _, err := t.GetWithIndex(key); return err }); x != nil {
				return x
			}
			if x := measure("GetByIndex", 2*h+2, func(t *iavl.ImmutableTree) error { _, _, err := t.GetByIndex(int64(probe)); return err }); x != nil {
				return x
			}
			if x := measure("GetProof", 10*h+10, func(t *iavl.ImmutableTree) error { _, err := t.GetProof(key); return err }); x != nil {
				return x
			}
			absent := append(cp(key), 0)
			if x := measure("GetAbsent", 2*h+2, func(t *iavl.ImmutableTree) error { _, err := t.Get(absent); return err }); x != nil {
				return x
			}
			if _, present := kv[string(absent)]; !present {
				// a non-membership proof (two neighbours) is a proof too: 10h+10
				if x := measure("GetProofAbsent", 10*h+10, func(t *iavl.ImmutableTree) error { _, err := t.GetProof(absent); return err }); x != nil {
					return x
				}
				if x := measure("GetNonMembershipProof", 10*h+10, func(t *iavl.ImmutableTree) error { _, err := t.GetNonMembershipProof(absent); return err }); x != nil {
					return x
				}
			}
		}
		return nil
	}
	for _, op := range c.Ops {
		switch op.Kind {
		case "set":
			_, had := work[op.K]
			val := val
			if len(op.K)%4 == 3 {
				val = []byte{} // a quarter of the keys carry the empty value (a stored pair, not an absent one)
			}
			upd, err := tr.Set([]byte(op.K), val)
			if err != nil || upd != had {
				return viol("set", "Set(%q)=%v,%v", op.K, upd, err), st
			}
			wroot, _ = rset(wroot, []byte(op.K), val)
			work[op.K] = val
		case "remove":
			_, had := work[op.K]
			_, rm, err := tr.Remove([]byte(op.K))
			if err != nil || rm != had {
				return viol("remove", "Remove(%q)=%v,%v want %v", op.K, rm, err, had), st
			}
			if had {
				wroot, _, _, _ = rremove(wroot, []byte(op.K))
				delete(work, op.K)
			}
		case "save":
			h, ver, err := tr.SaveVersion()
			if err != nil {
				return viol("save", "%v", err), st
			}
			if want := rhash(wroot, ver, true); !bytes.Equal(h, want) {
				return viol("save.hash", "SaveVersion(%d) hash %x want %x", ver, h, want), st
			}
			latest = ver
			vers[ver] = verT{wroot, copyKV(work)}
		}
	}
	st.doubleRot = refCnt.DoubleRot - cnt0.DoubleRot
	st.versions = int(latest)
	// working tree (may hold uncommitted nodes): structure only
	if latest > 0 {
		gone = vers[latest].kv
	}
	if x := checkTree("working tree", tr, work, wroot, nil); x != nil { // through the MutableTree's own methods
		return x, st
	}
	gone = nil
	vs := make([]int64, 0, len(vers))
	for ver := range vers {
		vs = append(vs, ver)
	}
	sort.Slice(vs, func(i, j int) bool { return vs[i] < vs[j] })
	// all versions structurally; read counting on up to 4 of them (first, last, two in between)
	count := map[int64]bool{}
	if len(vs) > 0 {
		count[vs[0]], count[vs[len(vs)-1]], count[vs[len(vs)/2]], count[vs[len(vs)/3]] = true, true, true, true
	}
	for _, ver := range vs {
		ver := ver
		it, err := tr.GetImmutable(ver)
		if err != nil {
			return viol("getimmutable", "GetImmutable(%d): %v", ver, err), st
		}
		var fresh func() *iavl.ImmutableTree
		if count[ver] {
			fresh = func() *iavl.ImmutableTree {
				t2, err := tr.GetImmutable(ver)
				if err != nil {
					panic(err)
				}
				return t2
			}
		}
		if len(vs) > 12 && !count[ver] && ver%5 != 0 {
			continue
		}
		if x := checkTree(fmt.Sprintf("version %d", ver), it, vers[ver].kv, vers[ver].root, fresh); x != nil {
			return x, st
		}
	}
	return nil, st
}

func TestC11(t *testing.T) {
	rapid.Check(t, func(rt *rapid.T) {
		c := genC11(rt)
		v, st := runC11(c)
		if v != nil {
			reportViolation(rt, "C11", c, v)
		}
		RecordCase("C11", c, st.maxSize >= 8 && st.doubleRot >= 1, map[string]bool{"mode_" + c.Mode: true, "size_ge_100": st.maxSize >= 100, "size_ge_1000": st.maxSize >= 1000, "ge3_versions": st.versions >= 3})
		for op, r := range st.maxRatio {
			statsMu.Lock()
			p := ps("C11")
			if int(r*1000) > p.Counters["max_reads_per_height_plus1_x1000_"+op] {
				p.Counters["max_reads_per_height_plus1_x1000_"+op] = int(r * 1000)
			}
			statsMu.Unlock()
		}
	})
}

func init() {
	customReplayers["C11"] = func(raw json.RawMessage) (*Violation, bool) {
		var c C11Case
		if err := json.Unmarshal(raw, &c); err != nil {
			return &Violation{Prop: "C11", Obs: "harness", Msg: err.Error()}, true
		}
		v, _ := runC11(c)
		return v, true
	}
}

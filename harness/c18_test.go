package harness

// C18: the bundled storage backends implement one ordered-KV contract.

import (
	"bytes"
	"encoding/json"
	"fmt"
	"os"
	"sort"
	"testing"

	corestore "cosmossdk.io/core/store"
	dbm "github.com/cosmos/iavl/db"
	"pgregory.net/rapid"
)

var kvAlpha = []byte{0x00, 0x01, 'a', 0xFE, 0xFF}

type KOp struct {
	Kind  string  `json:"op"` // set | delete | get | batch | iter
	K     []byte  `json:"k,omitempty"`
	V     []byte  `json:"v,omitempty"`
	NilV  bool    `json:"nil_v,omitempty"`
	Batch []KOp   `json:"batch,omitempty"`
	Fin   string  `json:"fin,omitempty"` // write | writesync | close
	Start []byte  `json:"start,omitempty"`
	End   []byte  `json:"end,omitempty"`
	SNil  bool    `json:"start_nil,omitempty"`
	ENil  bool    `json:"end_nil,omitempty"`
	Rev   bool    `json:"rev,omitempty"`
	Stop  int     `json:"stop,omitempty"` // consume only this many items (0 = all), then Close
	// Rep > 1 (batch): a BULK batch - the drawn operations are staged Rep times in a row (the values of the r-th round
	// get the byte r appended), i.e. hundreds to thousands of operations in which every key occurs many times
	Rep int `json:"rep,omitempty"`
}

// batchOps: the operations a batch step stages, in order
func (op KOp) batchOps() []KOp {
	if op.Rep <= 1 {
		return op.Batch
	}
	out := make([]KOp, 0, len(op.Batch)*op.Rep)
	for r := 0; r < op.Rep; r++ {
		for _, o := range op.Batch {
			if o.Kind == "set" && !o.NilV {
				o.V = append(append([]byte{}, o.V...), byte(r))
			}
			out = append(out, o)
		}
	}
	return out
}

type C18Case struct {
	Prop    string `json:"property"`
	Prefix  []byte `json:"prefix"`
	Prefix2 []byte `json:"prefix2"`
	Level   bool   `json:"level"`
	// Spare: spare capacity of the prefix slices handed to NewPrefixDB (a caller may well pass a slice built by append)
	Spare int   `json:"spare,omitempty"`
	Ops   []KOp `json:"ops"`
}

func genBKey(t *rapid.T, min int, label string) []byte {
	return rapid.SliceOfN(rapid.SampledFrom(kvAlpha), min, 4).Draw(t, label)
}

func genC18(t *rapid.T) C18Case {
	c := C18Case{Prop: "C18", Level: os.Getenv("VERIF_LEVEL") != ""}
	prefixes := [][]byte{{0xff}, {0xff, 0xff}, {'a', 0xff}, {'a'}, {0x00}, {0xfe, 0xff, 0xff}}
	if rapid.Bool().Draw(t, "poolPrefix") {
		c.Prefix = rapid.SampledFrom(prefixes).Draw(t, "prefix")
	} else {
		c.Prefix = rapid.SliceOfN(rapid.SampledFrom(kvAlpha), 1, 3).Draw(t, "prefixr")
	}
	c.Prefix2 = rapid.SampledFrom(prefixes).Draw(t, "prefix2")
	c.Spare = rapid.SampledFrom([]int{0, 0, 1, 9, 16}).Draw(t, "spare")
	n := rapid.IntRange(1, 30).Draw(t, "steps")
	var present [][]byte
	bound := func(label string) ([]byte, bool) {
		switch rapid.IntRange(0, 5).Draw(t, label+"c") {
		case 0:
			return nil, true
		case 1, 2:
			if len(present) > 0 {
				k := rapid.SampledFrom(present).Draw(t, label+"p")
				switch rapid.IntRange(0, 2).Draw(t, label+"m") {
				case 0:
					return k, false
				case 1:
					return append(append([]byte{}, k...), 0x00), false
				default:
					if len(k) > 1 {
						return k[:len(k)-1], false
					}
					return k, false
				}
			}
		}
		return genBKey(t, 1, label), false
	}
	for i := 0; i < n; i++ {
		switch rapid.IntRange(0, 9).Draw(t, "op") {
		case 0, 1, 2:
			op := KOp{Kind: "set", K: genBKey(t, 0, "k"), V: rapid.SliceOfN(rapid.Byte(), 0, 2).Draw(t, "v")}
			if len(op.K) == 0 && rapid.IntRange(0, 3).Draw(t, "keepEmpty") != 0 {
				op.K = genBKey(t, 1, "k1")
			}
			if rapid.IntRange(0, 11).Draw(t, "nilv") == 0 {
				op.NilV, op.V = true, nil
			}
			if len(op.K) > 0 && !op.NilV {
				present = append(present, op.K)
			}
			c.Ops = append(c.Ops, op)
		case 3:
			k := genBKey(t, 0, "dk")
			if len(present) > 0 && rapid.Bool().Draw(t, "dp") {
				k = rapid.SampledFrom(present).Draw(t, "dpk")
			}
			c.Ops = append(c.Ops, KOp{Kind: "delete", K: k})
		case 4:
			k := genBKey(t, 1, "gk")
			if len(present) > 0 && rapid.Bool().Draw(t, "gp") {
				k = rapid.SampledFrom(present).Draw(t, "gpk")
			}
			c.Ops = append(c.Ops, KOp{Kind: "get", K: k})
		case 5, 6:
			op := KOp{Kind: "batch", Fin: rapid.SampledFrom([]string{"write", "write", "writesync", "close"}).Draw(t, "fin")}
			bn := rapid.IntRange(0, 6).Draw(t, "bn")
			if rapid.IntRange(0, 14).Draw(t, "bulk") == 0 {
				// a bulk batch (what a commit or an import hands to the store): hundreds to thousands of operations over the
				// small key universe, so that most keys are written and deleted many times inside ONE batch
				bn = rapid.IntRange(3, 12).Draw(t, "bulkPattern")
				op.Rep = rapid.SampledFrom([]int{8, 40, 80, 200}).Draw(t, "bulkRep")
			}
			for j := 0; j < bn; j++ {
				if rapid.IntRange(0, 2).Draw(t, "bdel") == 0 {
					k := genBKey(t, 0, "bk")
					if len(present) > 0 && rapid.Bool().Draw(t, "bdp") {
						k = rapid.SampledFrom(present).Draw(t, "bdpk")
					}
					op.Batch = append(op.Batch, KOp{Kind: "delete", K: k})
				} else {
					b := KOp{Kind: "set", K: genBKey(t, 0, "bsk"), V: rapid.SliceOfN(rapid.Byte(), 0, 2).Draw(t, "bv")}
					if rapid.IntRange(0, 11).Draw(t, "bnil") == 0 {
						b.NilV, b.V = true, nil
					}
					if len(b.K) > 0 && !b.NilV && op.Fin != "close" {
						present = append(present, b.K)
					}
					op.Batch = append(op.Batch, b)
				}
			}
			c.Ops = append(c.Ops, op)
		default:
			op := KOp{Kind: "iter", Rev: rapid.Bool().Draw(t, "rev")}
			op.Start, op.SNil = bound("s")
			op.End, op.ENil = bound("e")
			if rapid.IntRange(0, 3).Draw(t, "partial") == 0 {
				op.Stop = rapid.IntRange(1, 3).Draw(t, "stop")
			}
			c.Ops = append(c.Ops, op)
		}
	}
	return c
}

type kvBackend struct {
	name    string
	db      corestore.KVStoreWithBatch
	parent  corestore.KVStoreWithBatch // for prefixed views: the outermost parent
	full    []byte                     // full prefix seen from the parent
	outside []KV
	closer  func()
}

func dumpKVs(db corestore.KVStoreWithBatch) []KV {
	it, err := db.Iterator(nil, nil)
	if err != nil {
		panic(err)
	}
	defer it.Close()
	var out []KV
	for ; it.Valid(); it.Next() {
		out = append(out, KV{cp(it.Key()), cp(it.Value())})
	}
	return out
}

func inside(k, prefix []byte) bool { return bytes.HasPrefix(k, prefix) && len(k) > len(prefix) }

func seedOutside(parent corestore.KVStoreWithBatch, prefix []byte) {
	cands := [][]byte{cp(prefix), prefix[:len(prefix)-1], {0xff}, {0xff, 0xff, 0xff, 0xff, 0xff}, {0x00}, {'a'}, {0xfe}}
	if inc := incr(prefix); inc != nil {
		cands = append(cands, inc, append(append([]byte{}, inc...), 0x00))
	}
	// just below the namespace
	if b := cp(prefix); b[len(b)-1] > 0 {
		b[len(b)-1]--
		cands = append(cands, append(b, 0xff, 0xff))
	}
	for _, o := range cands {
		if len(o) > 0 && !inside(o, prefix) {
			_ = parent.Set(o, []byte("outside"))
		}
	}
}

func runC18(c C18Case) (v *Violation, st map[string]bool) {
	st = map[string]bool{}
	defer func() {
		if r := recover(); r != nil {
			v = &Violation{Prop: "C18", Obs: "panic", Msg: fmt.Sprint(r)}
		}
	}()
	viol := func(obs, f string, a ...any) *Violation { return &Violation{Prop: "C18", Obs: obs, Msg: fmt.Sprintf(f, a...)} }
	var bes []*kvBackend
	bes = append(bes, &kvBackend{name: "mem", db: dbm.NewMemDB()})
	addPrefixed := func(name string, parent corestore.KVStoreWithBatch) {
		seedOutside(parent, c.Prefix)
		bes = append(bes, &kvBackend{name: name, db: dbm.NewPrefixDB(parent, withSpare(c.Prefix, c.Spare)), parent: parent, full: c.Prefix})
	}
	addPrefixed("prefix(mem)", dbm.NewMemDB())
	// nested: PrefixDB(PrefixDB(mem, p1), p2)
	{
		parent := dbm.NewMemDB()
		full := append(append([]byte{}, c.Prefix...), c.Prefix2...)
		seedOutside(parent, full)
		seedOutside(parent, c.Prefix)
		// remove seeds that fall inside the nested namespace
		for _, e := range dumpKVs(parent) {
			if inside(e.K, full) {
				_ = parent.Delete(e.K)
			}
		}
		bes = append(bes, &kvBackend{name: "prefix(prefix(mem))", db: dbm.NewPrefixDB(dbm.NewPrefixDB(parent, withSpare(c.Prefix, c.Spare)), withSpare(c.Prefix2, c.Spare)), parent: parent, full: full})
	}
	if c.Level {
		base := os.Getenv("VERIF_TMP")
		if base == "" {
			base = "/dev/shm"
			if _, err := os.Stat(base); err != nil {
				base = os.TempDir()
			}
		}
		dir, err := os.MkdirTemp(base, "verif-c18-")
		if err != nil {
			return viol("harness", "%v", err), st
		}
		defer os.RemoveAll(dir)
		l1, err := dbm.NewGoLevelDB("a", dir)
		if err != nil {
			return viol("harness", "%v", err), st
		}
		defer l1.Close()
		bes = append(bes, &kvBackend{name: "level", db: l1})
		l2, err := dbm.NewGoLevelDB("b", dir)
		if err != nil {
			return viol("harness", "%v", err), st
		}
		defer l2.Close()
		addPrefixed("prefix(level)", l2)
	}
	for _, b := range bes {
		if b.parent != nil {
			for _, e := range dumpKVs(b.parent) {
				if !inside(e.K, b.full) {
					b.outside = append(b.outside, e)
				}
			}
		}
	}
	model := map[string][]byte{}
	errs := func(e error) string {
		if e != nil {
			return "ERR"
		}
		return "ok"
	}
	all := func(what string, f func(b *kvBackend) string) (string, *Violation) {
		var first string
		for i, b := range bes {
			r := f(b)
			if i == 0 {
				first = r
			} else if r != first {
				return "", viol("differential", "%s: backend %s -> %s ; backend %s -> %s", what, bes[0].name, first, b.name, r)
			}
		}
		return first, nil
	}
	for i, op := range c.Ops {
		what := fmt.Sprintf("step %d %s", i, mustJSON(op))
		switch op.Kind {
		case "set":
			val := op.V
			if !op.NilV && val == nil {
				val = []byte{}
			}
			if op.NilV {
				val = nil
			}
			r, x := all(what, func(b *kvBackend) string { return errs(b.db.Set(op.K, val)) })
			if x != nil {
				return x, st
			}
			wantErr := len(op.K) == 0 || val == nil
			if (r == "ERR") != wantErr {
				return viol("set", "%s -> %s want error=%v", what, r, wantErr), st
			}
			if !wantErr {
				model[string(op.K)] = val
			}
		case "delete":
			r, x := all(what, func(b *kvBackend) string { return errs(b.db.Delete(op.K)) })
			if x != nil {
				return x, st
			}
			if (r == "ERR") != (len(op.K) == 0) {
				return viol("delete", "%s -> %s", what, r), st
			}
			delete(model, string(op.K))
		case "get":
			r, x := all(what, func(b *kvBackend) string {
				val, err := b.db.Get(op.K)
				h, err2 := b.db.Has(op.K)
				return fmt.Sprintf("%x nil=%v %v has=%v %v", val, val == nil, err, h, err2)
			})
			if x != nil {
				return x, st
			}
			mv, ok := model[string(op.K)]
			if want := fmt.Sprintf("%x nil=%v %v has=%v %v", mv, !ok, nil, ok, nil); r != want {
				return viol("get", "%s = %s want %s", what, r, want), st
			}
		case "batch":
			staged := map[string]*[]byte{}
			var order []string
			wantRes := ""
			for _, o := range op.batchOps() {
				val := o.V
				if o.Kind == "set" && !o.NilV && val == nil {
					val = []byte{}
				}
				if o.Kind == "delete" {
					if len(o.K) == 0 {
						wantRes += "ERR"
						continue
					}
					wantRes += "ok"
					staged[string(o.K)] = nil
					order = append(order, string(o.K))
				} else {
					if len(o.K) == 0 || o.NilV {
						wantRes += "ERR"
						continue
					}
					wantRes += "ok"
					vv := val
					staged[string(o.K)] = &vv
					order = append(order, string(o.K))
				}
			}
			r, x := all(what, func(b *kvBackend) string {
				bt := b.db.NewBatch()
				res := ""
				for _, o := range op.batchOps() {
					val := o.V
					if o.Kind == "set" && !o.NilV && val == nil {
						val = []byte{}
					}
					if o.Kind == "delete" {
						res += errs(bt.Delete(o.K))
					} else {
						if o.NilV {
							val = nil
						}
						res += errs(bt.Set(o.K, val))
					}
				}
				// nothing is visible before Write
				switch op.Fin {
				case "write":
					res += "|" + errs(bt.Write())
				case "writesync":
					res += "|" + errs(bt.WriteSync())
				default:
					res += "|" + errs(bt.Close())
				}
				// a written / closed batch cannot be reused
				res += "|reuse:" + errs(bt.Set([]byte("a"), []byte("x"))) + errs(bt.Delete([]byte("a"))) + errs(bt.Write())
				_ = bt.Close()
				return res
			})
			if x != nil {
				return x, st
			}
			if want := wantRes + "|ok|reuse:ERRERRERR"; r != want {
				return viol("batch", "%s -> %s want %s", what, r, want), st
			}
			if op.Fin != "close" {
				_ = order
				for k, pv := range staged {
					if pv == nil {
						delete(model, k)
					} else {
						model[k] = *pv
					}
				}
				st["batch_written"] = true
				if len(op.batchOps()) >= 64 {
					st["bulk_batch_written"] = true
				}
			}
		case "iter":
			var start, end []byte
			if !op.SNil {
				start = op.Start
			}
			if !op.ENil {
				end = op.End
			}
			r, x := all(what, func(b *kvBackend) string {
				var it corestore.Iterator
				var err error
				if op.Rev {
					it, err = b.db.ReverseIterator(start, end)
				} else {
					it, err = b.db.Iterator(start, end)
				}
				if err != nil {
					return "ERR"
				}
				s := ""
				n := 0
				for ; it.Valid(); it.Next() {
					s += fmt.Sprintf("%x=%x,", it.Key(), it.Value())
					n++
					if op.Stop > 0 && n == op.Stop {
						break
					}
				}
				if op.Stop == 0 && (it.Valid() || it.Valid()) {
					s += "STILLVALID"
				}
				if it.Error() != nil {
					s += "ITERERR"
				}
				if err := it.Close(); err != nil {
					s += "CLOSEERR"
				}
				return s
			})
			if x != nil {
				return x, st
			}
			var ks []string
			for k := range model {
				if (start == nil || bytes.Compare([]byte(k), start) >= 0) && (end == nil || bytes.Compare([]byte(k), end) < 0) {
					ks = append(ks, k)
				}
			}
			sort.Strings(ks)
			if op.Rev {
				sort.Sort(sort.Reverse(sort.StringSlice(ks)))
			}
			if op.Stop > 0 && len(ks) > op.Stop {
				ks = ks[:op.Stop]
			}
			want := ""
			for _, k := range ks {
				want += fmt.Sprintf("%x=%x,", k, model[k])
			}
			if r != want {
				return viol("iter", "%s = %s want %s", what, r, want), st
			}
			for _, b := range [][]byte{start, end} {
				if b != nil {
					if _, ok := model[string(b)]; ok {
						st["bound_on_stored_key"] = true
					}
				}
			}
			if len(ks) > 0 && len(ks) < len(model) {
				st["iter_splits"] = true
			}
		}
		// the whole view equals the model; keys outside the namespace are never shown or touched
		for _, b := range bes {
			got := dumpKVs(b.db)
			if !eqKVs(got, sortedKVs(model)) {
				return viol("view", "after %s: backend %s holds %s, model %s", what, b.name, fmtKVs(got), fmtKVs(sortedKVs(model))), st
			}
			if b.parent == nil {
				continue
			}
			var outs []KV
			nin := 0
			for _, e := range dumpKVs(b.parent) {
				if inside(e.K, b.full) {
					nin++
					continue
				}
				outs = append(outs, e)
			}
			// IteratePrefix over the parent yields exactly the parent's keys that start with the prefix
			pit, err := dbm.IteratePrefix(b.parent, b.full)
			if err != nil {
				return viol("iterateprefix", "IteratePrefix(%x): %v", b.full, err), st
			}
			var pgot []string
			for ; pit.Valid(); pit.Next() {
				pgot = append(pgot, string(pit.Key()))
			}
			perr := pit.Error()
			_ = pit.Close()
			var pwant []string
			for _, e := range dumpKVs(b.parent) {
				if bytes.HasPrefix(e.K, b.full) {
					pwant = append(pwant, string(e.K))
				}
			}
			if perr != nil || fmt.Sprintf("%x", pgot) != fmt.Sprintf("%x", pwant) {
				return viol("iterateprefix", "after %s: %s: IteratePrefix(%x) = %x (%v) want %x", what, b.name, b.full, pgot, perr, pwant), st
			}
			if !eqKVs(outs, b.outside) {
				return viol("isolation", "after %s: %s: keys outside the namespace %x changed: %s (were %s)", what, b.name, b.full, fmtKVs(outs), fmtKVs(b.outside)), st
			}
			if nin != len(model) {
				return viol("isolation", "after %s: %s: parent holds %d keys inside the namespace, model %d", what, b.name, nin, len(model)), st
			}
		}
	}
	return nil, st
}

func mustJSON(v any) string {
	b, _ := json.Marshal(v)
	return string(b)
}

func TestC18(t *testing.T) {
	rapid.Check(t, func(rt *rapid.T) {
		c := genC18(rt)
		v, st := runC18(c)
		if v != nil {
			reportViolation(rt, "C18", c, v)
		}
		st["level"] = c.Level
		st["prefix_ends_ff"] = c.Prefix[len(c.Prefix)-1] == 0xff
		RecordCase("C18", c, st["bound_on_stored_key"] || st["iter_splits"], st)
	})
}

func init() {
	customReplayers["C18"] = func(raw json.RawMessage) (*Violation, bool) {
		var c C18Case
		if err := json.Unmarshal(raw, &c); err != nil {
			return &Violation{Prop: "C18", Obs: "harness", Msg: err.Error()}, true
		}
		v, _ := runC18(c)
		return v, true
	}
}

package harness

// C15: extracted change sets equal the net writes of each version; replay through SaveChangeSet.

import (
	"bytes"
	"fmt"
	"sort"

	"github.com/cosmos/iavl"
	dbm "github.com/cosmos/iavl/db"
)

// expectedChangeSet: in ascending key order, once per key: keys written (Set) in v that are present in v
// (with their value, also when unchanged) and keys present in v-1 that are absent in v.
func (w *World) expectedChangeSet(v int64) []string {
	cur := w.Vers[v]
	prevKV := map[string][]byte{}
	if p, ok := w.Vers[v-1]; ok {
		prevKV = p.KV
	}
	keys := map[string]bool{}
	for k := range cur.KV {
		keys[k] = true
	}
	for k := range prevKV {
		keys[k] = true
	}
	ks := make([]string, 0, len(keys))
	for k := range keys {
		ks = append(ks, k)
	}
	sort.Strings(ks)
	var want []string
	for _, k := range ks {
		nv, in := cur.KV[k]
		_, was := prevKV[k]
		if in && cur.Touched[k] {
			want = append(want, fmt.Sprintf("set %q=%q", k, nv))
		} else if !in && was {
			want = append(want, fmt.Sprintf("del %q", k))
		}
	}
	return want
}

func fmtChangeSet(cs *iavl.ChangeSet) []string {
	var g []string
	for _, p := range cs.Pairs {
		if p.Delete {
			g = append(g, fmt.Sprintf("del %q", p.Key))
		} else {
			g = append(g, fmt.Sprintf("set %q=%q", p.Key, p.Value))
		}
	}
	return g
}

// csCheckable: predecessor retained, or v is the first version ever committed (predecessor = empty tree).
func (w *World) csCheckable(v int64) bool {
	if _, ok := w.Vers[v]; !ok {
		return false
	}
	if _, ok := w.Vers[v-1]; ok {
		return true
	}
	return v == w.Base && v == w.First
}

// checkChangeSetRange extracts [start,end] and compares every delivered set.
func (w *World) checkChangeSetRange(start, end int64) *Violation {
	if w.Latest == 0 {
		return nil
	}
	it, err := w.Tree.GetImmutable(w.Latest)
	if err != nil {
		return w.viol("cs.getimmutable", "%v", err)
	}
	type rec struct {
		v  int64
		cs *iavl.ChangeSet
	}
	var got []rec
	err = it.TraverseStateChanges(start, end, func(v int64, cs *iavl.ChangeSet) error { got = append(got, rec{v, cs}); return nil })
	if err != nil {
		return w.viol("cs.traverse", "TraverseStateChanges(%d,%d) with retained %d..%d: %v", start, end, w.First, w.Latest, err)
	}
	lo := start
	if lo < w.First {
		lo = w.First
	}
	hi := end
	if hi > w.Latest {
		hi = w.Latest
	}
	// the doc comment says endVersion is exclusive, the code includes it: both are accepted
	if lo <= hi {
		n := int64(len(got))
		if n != hi-lo+1 && !(end <= w.Latest && n == hi-lo) {
			return w.viol("cs.range", "TraverseStateChanges(%d,%d) delivered %d versions, retained %d..%d", start, end, n, w.First, w.Latest)
		}
	} else if len(got) != 0 {
		return w.viol("cs.range", "TraverseStateChanges(%d,%d) delivered %d versions for an empty range", start, end, len(got))
	}
	for i, r := range got {
		if r.v != lo+int64(i) {
			return w.viol("cs.range", "TraverseStateChanges(%d,%d) delivered version %d at position %d, want %d", start, end, r.v, i, lo+int64(i))
		}
		if !w.csCheckable(r.v) {
			continue
		}
		want := w.expectedChangeSet(r.v)
		if g := fmtChangeSet(r.cs); fmt.Sprint(g) != fmt.Sprint(want) {
			return w.viol("cs.content", "change set of version %d = %v want %v", r.v, g, want)
		}
		w.Cnt["changesets_checked"]++
		vs := w.Vers[r.v]
		for k := range vs.Touched {
			if _, in := vs.KV[k]; !in {
				w.Labels["cancelled_write"] = true
			}
		}
	}
	return nil
}

// checkChangeSetReplay: replay all extracted change sets into an empty tree (needs the whole history retained).
func (w *World) checkChangeSetReplay() *Violation {
	if w.Latest == 0 || w.First != w.Base {
		return nil
	}
	it, err := w.Tree.GetImmutable(w.Latest)
	if err != nil {
		return w.viol("cs.getimmutable", "%v", err)
	}
	var opts []iavl.Option
	if w.Base != 1 {
		opts = append(opts, iavl.InitialVersionOption(uint64(w.Base)))
	}
	tr2 := iavl.NewMutableTree(dbm.NewMemDB(), 0, w.Cfg.SkipFast, iavl.NewNopLogger(), opts...)
	if _, err := tr2.Load(); err != nil {
		return w.viol("harness", "%v", err)
	}
	allNormal := true
	var fail *Violation
	err = it.TraverseStateChanges(w.First, w.Latest, func(v int64, cs *iavl.ChangeSet) error {
		if fail != nil {
			return nil
		}
		vs := w.Vers[v]
		// removal of a missing key is rejected and creates no version
		if v == w.Latest {
			bad := &iavl.ChangeSet{Pairs: []*iavl.KVPair{{Delete: true, Key: []byte("\x01never-present")}}}
			before := tr2.Version()
			if _, err := tr2.SaveChangeSet(bad); err == nil {
				fail = w.viol("cs.reject", "SaveChangeSet removing a missing key succeeded")
				return nil
			}
			tr2.Rollback()
			if tr2.Version() != before {
				fail = w.viol("cs.reject", "rejected SaveChangeSet created a version")
				return nil
			}
		}
		nv, err := tr2.SaveChangeSet(cs)
		if err != nil || nv != v {
			fail = w.viol("cs.save", "SaveChangeSet of version %d = %d,%v", v, nv, err)
			return nil
		}
		var got []KV
		_, _ = tr2.Iterate(func(k, v []byte) bool { got = append(got, KV{cp(k), cp(v)}); return false })
		if !eqKVs(got, sortedKVs(vs.KV)) {
			fail = w.viol("cs.replay_contents", "replaying change sets into an empty tree: contents at version %d = %s want %s", v, fmtKVs(got), fmtKVs(sortedKVs(vs.KV)))
			return nil
		}
		allNormal = allNormal && vs.Normal
		if allNormal {
			if h := tr2.Hash(); !bytes.Equal(h, rhash(vs.Root, 0, false)) {
				fail = w.viol("cs.replay_hash", "history in normal form, but replayed hash at version %d = %x want %x", v, h, rhash(vs.Root, 0, false))
				return nil
			}
			w.Cnt["replay_hash_checked"]++
		}
		return nil
	})
	if fail != nil {
		return fail
	}
	if err != nil {
		return w.viol("cs.traverse", "%v", err)
	}
	w.Labels["changeset_replayed"] = true
	return nil
}

// checkHostileChangeSet (C15): an arbitrary (not normal-form) change set applied to a copy of the latest version:
// SaveChangeSet applies the pairs in order as one new version and rejects the removal of a key that is missing at
// that point.
func (w *World) checkHostileChangeSet(pairs []*iavl.KVPair) *Violation {
	if w.Latest == 0 {
		return nil
	}
	src, err := w.Tree.GetImmutable(w.Latest)
	if err != nil {
		return w.viol("cs.getimmutable", "%v", err)
	}
	// copy of the latest version in a fresh tree
	tr2 := iavl.NewMutableTree(dbm.NewMemDB(), 0, w.Cfg.SkipFast, iavl.NewNopLogger())
	kv := copyKV(w.Vers[w.Latest].KV)
	if _, err := src.Iterate(func(k, v []byte) bool { _, _ = tr2.Set(cp(k), cp(v)); return false }); err != nil {
		return w.viol("harness", "%v", err)
	}
	if _, _, err := tr2.SaveVersion(); err != nil {
		return w.viol("harness", "%v", err)
	}
	before := tr2.Version()
	wantErr := false
	for _, p := range pairs {
		if p.Delete {
			if _, ok := kv[string(p.Key)]; !ok {
				wantErr = true
				break
			}
			delete(kv, string(p.Key))
		} else {
			kv[string(p.Key)] = p.Value
		}
	}
	nv, err := tr2.SaveChangeSet(&iavl.ChangeSet{Pairs: pairs})
	if wantErr {
		if err == nil {
			return w.viol("cs.reject", "SaveChangeSet %v removes a key that is missing at that point but was accepted (version %d)", fmtChangeSet(&iavl.ChangeSet{Pairs: pairs}), nv)
		}
		w.Cnt["hostile_changesets_rejected"]++
		return nil
	}
	if err != nil || nv != before+1 {
		return w.viol("cs.save", "SaveChangeSet %v = %d,%v want version %d", fmtChangeSet(&iavl.ChangeSet{Pairs: pairs}), nv, err, before+1)
	}
	var got []KV
	_, _ = tr2.Iterate(func(k, v []byte) bool { got = append(got, KV{cp(k), cp(v)}); return false })
	if !eqKVs(got, sortedKVs(kv)) {
		return w.viol("cs.apply", "SaveChangeSet %v gives %s want %s", fmtChangeSet(&iavl.ChangeSet{Pairs: pairs}), fmtKVs(got), fmtKVs(sortedKVs(kv)))
	}
	w.Cnt["hostile_changesets_applied"]++
	return nil
}

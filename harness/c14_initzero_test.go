package harness

// C14, explicit InitialVersionOption(0): whatever number the first commit gets, the version range API must agree with it.

import (
	"encoding/json"
	"fmt"

	"github.com/cosmos/iavl"
	dbm "github.com/cosmos/iavl/db"
)

func runInitZero() *Violation {
	viol := func(f string, a ...any) *Violation {
		return &Violation{Prop: "C14", Obs: "initial_version_zero", Msg: fmt.Sprintf(f, a...)}
	}
	db := dbm.NewMemDB()
	tr := iavl.NewMutableTree(db, 0, true, iavl.NewNopLogger(), iavl.InitialVersionOption(0))
	if _, err := tr.Load(); err != nil {
		return viol("Load: %v", err)
	}
	if _, err := tr.Set([]byte("a"), []byte("1")); err != nil {
		return viol("Set: %v", err)
	}
	_, v, err := tr.SaveVersion()
	if err != nil {
		return viol("SaveVersion: %v", err)
	}
	lv, _ := tr.GetLatestVersion()
	if !tr.VersionExists(v) || fmt.Sprint(tr.AvailableVersions()) != fmt.Sprint([]int{int(v)}) || lv != v {
		return viol("with InitialVersionOption(0) SaveVersion returned version %d, but VersionExists(%d)=%v AvailableVersions=%v GetLatestVersion=%d", v, v, tr.VersionExists(v), tr.AvailableVersions(), lv)
	}
	tr2 := iavl.NewMutableTree(db, 0, true, iavl.NewNopLogger(), iavl.InitialVersionOption(0))
	l2, err := tr2.Load()
	if err != nil || l2 != v {
		return viol("after reopening, Load() = %d,%v want %d", l2, err, v)
	}
	if _, err := tr2.Set([]byte("b"), []byte("2")); err != nil {
		return viol("Set: %v", err)
	}
	_, v2, err := tr2.SaveVersion()
	if err != nil || v2 != v+1 {
		return viol("second commit = %d,%v want %d", v2, err, v+1)
	}
	return nil
}

func init() {
	customReplayers["C14"] = func(raw json.RawMessage) (*Violation, bool) {
		var head struct {
			Kind string `json:"kind"`
		}
		_ = json.Unmarshal(raw, &head)
		if head.Kind != "init_zero" {
			return nil, false
		}
		return runInitZero(), true
	}
}

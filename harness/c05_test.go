package harness

// C05: crash atomicity by enumeration of every cut of the journal of one generated operation.

import (
	"bytes"
	"encoding/json"
	"fmt"
	"os"
	"sort"
	"strings"
	"testing"

	"github.com/cosmos/iavl"
	dbm "github.com/cosmos/iavl/db"
	"pgregory.net/rapid"
)

type CrashCase struct {
	Prop    string  `json:"property"`
	Kind    string  `json:"kind"` // crash
	History History `json:"history"`
	Op      Op      `json:"crash_op"`
}

type modelSnap struct {
	vers          map[int64]*VerState
	first, latest int64
}

func snapOf(w *World) modelSnap {
	m := modelSnap{vers: map[int64]*VerState{}, first: w.First, latest: w.Latest}
	for v, s := range w.Vers {
		m.vers[v] = s
	}
	return m
}

func (m modelSnap) rng() string {
	var av []int
	for v := m.first; v <= m.latest && m.latest > 0; v++ {
		av = append(av, int(v))
	}
	return fmt.Sprint(av)
}

type crashStats struct {
	cuts, known, jlen int
	interiorChecked   int
	labels            map[string]bool
}

var crashProfile = &Profile{MinSteps: 8, MaxSteps: 40, KeepFlush: true,
	W: weights(map[string]int{"set": 40, "remove": 10, "save": 20, "prune": 3, "prune_refuse": 0, "reopen": 5, "lvfo": 2, "dvf": 1, "rollback": 1, "setnil": 0}), NoInitVer: false}

// verifyState checks through handle tr that the store holds exactly the model state m.
func verifyState(prop string, tr *iavl.MutableTree, img *dbm.MemDB, skip bool, m modelSnap, tag string) *Violation {
	tmp := &World{Prop: prop, Backend: "mem", Parent: img, DB: img, Cfg: Cfg{SkipFast: skip}, Tree: tr, Obs: Observers{Reads: true, Hash: true, Fast: true, Versions: true},
		Vers: m.vers, First: m.first, Latest: m.latest, Base: m.first, Labels: map[string]bool{}, Excl: map[string]int{}, Cnt: map[string]int{}}
	if m.latest > 0 {
		// probe from version 1 so that deleted versions below first are seen as unavailable
		tmp.Base = 1
		if m.first-1 > 1 {
			tmp.Base = m.first - 1
		}
	}
	if v := tmp.checkVersions(tr, tag); v != nil {
		return v
	}
	if !skip && m.latest > 0 {
		if err := auditFast(DumpDB(img), m.vers, m.latest); err != nil {
			return &Violation{Prop: prop, Obs: tag + "audit.fast", Msg: err.Error()}
		}
	}
	return nil
}

// verifyStateLight: for large states: hash, full iteration against the model, fast == walk for a sample of keys.
func verifyStateLight(prop string, tr *iavl.MutableTree, m modelSnap, tag string) *Violation {
	for v, vs := range m.vers {
		it, err := tr.GetImmutable(v)
		if err != nil {
			return &Violation{Prop: prop, Obs: tag + "getimmutable", Msg: fmt.Sprintf("GetImmutable(%d): %v", v, err)}
		}
		if h := it.Hash(); !bytes.Equal(h, rhash(vs.Root, 0, false)) {
			return &Violation{Prop: prop, Obs: tag + "version.hash", Msg: fmt.Sprintf("version %d hash %x want %x", v, h, rhash(vs.Root, 0, false))}
		}
		kvs := sortedKVs(vs.KV)
		i := 0
		bad := ""
		_, err = it.Iterate(func(k, val []byte) bool {
			if i >= len(kvs) || !bytes.Equal(k, kvs[i].K) || !bytes.Equal(val, kvs[i].V) {
				bad = fmt.Sprintf("position %d key %q", i, k)
				return true
			}
			i++
			return false
		})
		if err != nil || bad != "" || i != len(kvs) {
			return &Violation{Prop: prop, Obs: tag + "version.iterate", Msg: fmt.Sprintf("version %d iteration differs from the model (%s, %d of %d, %v)", v, bad, i, len(kvs), err)}
		}
		for j := 0; j < len(kvs); j += 97 {
			g, err := it.Get(kvs[j].K)
			_, w, err2 := it.GetWithIndex(kvs[j].K)
			if err != nil || err2 != nil || !bytes.Equal(g, kvs[j].V) || !bytes.Equal(w, kvs[j].V) {
				return &Violation{Prop: prop, Obs: tag + "version.get", Msg: fmt.Sprintf("version %d Get(%q)=%q GetWithIndex=%q want %q", v, kvs[j].K, g, w, kvs[j].V)}
			}
		}
	}
	lv, err := tr.GetLatestVersion()
	if err != nil || lv != m.latest {
		return &Violation{Prop: prop, Obs: tag + "versions.latest", Msg: fmt.Sprintf("GetLatestVersion=%d,%v want %d", lv, err, m.latest)}
	}
	return nil
}

// untouchedOK: every version the operation was not touching is fully readable through GetImmutable (tree walk).
func untouchedOK(img *dbm.MemDB, pre modelSnap, op Op, wv int64) *Violation {
	tr := iavl.NewMutableTree(img, 0, true, iavl.NewNopLogger())
	for v := pre.first; v <= pre.latest && pre.latest > 0; v++ {
		switch op.Kind {
		case "prune":
			if v <= op.N {
				continue
			}
		case "lvfo", "dvf":
			if v > op.N {
				continue
			}
		case "save":
			if v == wv {
				continue
			}
		}
		vs := pre.vers[v]
		it, err := tr.GetImmutable(v)
		if err != nil {
			return &Violation{Prop: "C05", Obs: "cut.untouched.getimmutable", Msg: fmt.Sprintf("version %d, which the interrupted %s was not touching, cannot be obtained: %v", v, op.Kind, err)}
		}
		if h := it.Hash(); !bytes.Equal(h, rhash(vs.Root, 0, false)) {
			return &Violation{Prop: "C05", Obs: "cut.untouched.hash", Msg: fmt.Sprintf("version %d (untouched by %s) hash %x want %x", v, op.Kind, h, rhash(vs.Root, 0, false))}
		}
		var got []KV
		it.IterateRange(nil, nil, true, func(k, val []byte) bool { got = append(got, KV{cp(k), cp(val)}); return false })
		if !eqKVs(got, sortedKVs(vs.KV)) {
			return &Violation{Prop: "C05", Obs: "cut.untouched.contents", Msg: fmt.Sprintf("version %d (untouched by %s) contents %s want %s", v, op.Kind, fmtKVs(got), fmtKVs(sortedKVs(vs.KV)))}
		}
	}
	return nil
}

func runCrash(c CrashCase) (v *Violation, st crashStats) {
	st.labels = map[string]bool{}
	w, err := NewWorld("C05", "trace", c.History.Cfg, Observers{Light: true})
	if err != nil {
		return &Violation{Prop: "C05", Obs: "harness", Msg: err.Error()}, st
	}
	defer w.Close()
	w.rememberInitialCfg()
	w.trackIndex(Op{Kind: "reopen"})
	for _, op := range c.History.Ops {
		if x := w.Apply(op); x != nil {
			x.Obs = "prefix." + x.Obs
			return x, st
		}
		w.trackIndex(op)
		if x := w.Observe(); x != nil {
			x.Obs = "prefix." + x.Obs
			return x, st
		}
	}
	return crashOp(w, c.Op)
}

// crashOp executes op on w (crash-free), then checks every cut of its journal.
func crashOp(w *World, op Op) (v *Violation, st crashStats) {
	st.labels = map[string]bool{}
	pre := snapOf(w)
	var opts []iavl.Option
	if w.Cfg.InitVer > 0 {
		opts = append(opts, iavl.InitialVersionOption(w.Cfg.InitVer))
	}
	// the recovering process uses a small flush threshold too, so that its own rebuilds are split
	opts = append(opts, iavl.FlushThresholdOption(w.Cfg.Flush))
	wops := append([]Op{}, w.WOps...)
	wv := w.WorkingVersion()
	base := DumpDB(w.DB)
	preCfg, preCur := w.Cfg, w.Cur
	w.Trace.NoJournal = false
	w.Trace.ResetJournal()
	if x := w.Apply(op); x != nil {
		x.Obs = "crashfree." + x.Obs
		return x, st
	}
	w.trackIndex(op)
	w.Trace.NoJournal = true
	journal := w.Trace.Journal
	post := snapOf(w)
	st.jlen = len(journal)
	st.labels["op_"+op.Kind] = true
	if len(journal) >= 2 {
		st.labels["split_op_"+op.Kind] = true
	}
	f7op := op.Kind == "save" || op.Kind == "prune" || op.Kind == "lvfo" || op.Kind == "dvf"
	var natural []map[string][]byte
	if f7op && Open("F7") && len(journal) >= 2 {
		natural = naturalImages(base, preCfg, preCur, wops, op)
	}
	for cut := 0; cut <= len(journal); cut++ {
		interior := cut > 0 && cut < len(journal)
		for variant, skip := range []bool{false, true, false} {
			st.cuts++
			img := ImageAt(base, journal, cut)
			tag := fmt.Sprintf("cut%d/%d.", cut, len(journal))
			var x *Violation
			if variant == 2 {
				x = checkCutOlder(img, pre, post, op, tag, opts)
			} else {
				x = checkCut(img, skip, pre, post, op, wops, wv, tag, opts)
			}
			if x == nil {
				if interior {
					st.interiorChecked++
				}
				continue
			}
			// (F7 is about the store a crash leaves behind: it cannot be loaded / lists an unreadable version / mixes two index
			// states. A store that recovered to a clean old-or-new state and only then misbehaves when the operation is
			// REPEATED is not that finding.)
			if interior && f7op && Open("F7") && f7Applies(pre, op) && !strings.HasPrefix(x.Obs, "cut.retry") && !atNaturalBoundary(natural, ImageAt(base, journal, cut)) {
				// known family: only the version being written / rolled back / deleted may be affected
				if y := untouchedOK(ImageAt(base, journal, cut), pre, op, wv); y != nil {
					y.Msg = tag + " " + y.Msg
					return y, st
				}
				st.known++
				continue
			}
			x.Msg = fmt.Sprintf("crash after %d of %d physical writes of %s (fast index %v on recovery): %s", cut, len(journal), op, !skip, x.Msg)
			return x, st
		}
	}
	return nil, st
}

// naturalImages: F7 is about physical writes that the FLUSH THRESHOLD cuts out of one logical write. The same operation
// is therefore executed once more on a copy of the store with the default threshold: the store contents at the
// boundaries of THAT journal are the states the operation exposes by design (one for a commit or a deletion, two for
// LoadVersionForOverwriting: rollback, then index rebuild). A cut of the real run whose image equals one of them is not
// a threshold split, and a failure there is never attributed to F7.
func naturalImages(base map[string][]byte, cfg Cfg, cur int64, wops []Op, op Op) (imgs []map[string][]byte) {
	defer func() {
		if r := recover(); r != nil {
			imgs = nil
		}
	}()
	db := MemDBFrom(base)
	tdb := NewTraceDBOn(db)
	opts := []iavl.Option{iavl.FlushThresholdOption(100000), iavl.SyncOption(cfg.Sync)}
	if cfg.InitVer > 0 {
		opts = append(opts, iavl.InitialVersionOption(cfg.InitVer))
	}
	tr := iavl.NewMutableTree(tdb, cfg.Cache, cfg.SkipFast, iavl.NewNopLogger(), opts...)
	if _, err := tr.LoadVersion(cur); err != nil {
		return nil
	}
	for _, o := range wops {
		switch o.Kind {
		case "set":
			v := o.V
			if v == nil {
				v = []byte{}
			}
			if _, err := tr.Set(o.K, v); err != nil {
				return nil
			}
		case "remove":
			if _, _, err := tr.Remove(o.K); err != nil {
				return nil
			}
		}
	}
	base2 := DumpDB(db)
	tdb.ResetJournal()
	var err error
	switch op.Kind {
	case "save":
		_, _, err = tr.SaveVersion()
	case "prune":
		err = tr.DeleteVersionsTo(op.N)
	case "lvfo":
		err = tr.LoadVersionForOverwriting(op.N)
	case "dvf":
		// the other way to roll back: DeleteVersionsFrom, then a load of the target (on the same or on a new handle)
		if err = tr.DeleteVersionsFrom(op.N + 1); err == nil {
			if op.Flag {
				tr = iavl.NewMutableTree(tdb, cfg.Cache, cfg.SkipFast, iavl.NewNopLogger(), opts...)
			}
			_, err = tr.LoadVersion(op.N)
		}
	default:
		return nil
	}
	if err != nil {
		return nil
	}
	for i := 0; i <= len(tdb.Journal); i++ {
		imgs = append(imgs, DumpDB(ImageAt(base2, tdb.Journal, i)))
	}
	return imgs
}

func atNaturalBoundary(natural []map[string][]byte, img *dbm.MemDB) bool {
	if len(natural) == 0 {
		return false
	}
	d := DumpDB(img)
	for _, n := range natural {
		if eqDump(d, n) {
			return true
		}
	}
	return false
}

// f7Applies narrows the F7 signature for DeleteVersionsTo: deleteVersion removes the root key of a version that wrote
// nodes FIRST (its orphan walk is pre-order and the root is always an orphan or gets re-keyed afterwards), so at every
// interior cut such a version is either fully listed+readable or not listed at all. Only versions whose root entry is a
// marker (reference to an earlier root = commit without changes, or empty tree) lose their nodes before their marker.
func f7Applies(pre modelSnap, op Op) bool {
	if op.Kind != "prune" {
		return true
	}
	if os.Getenv("VERIF_F7_PRUNE_ALL") != "" {
		return true
	}
	for v := pre.first; v <= op.N+1; v++ {
		vs, ok := pre.vers[v]
		if !ok {
			continue
		}
		if vs.Root == nil || vs.Root.Version != v {
			return true
		}
	}
	return false
}

func checkCut(img *dbm.MemDB, skip bool, pre, post modelSnap, op Op, wops []Op, wv int64, tag string, opts []iavl.Option) (v *Violation) {
	defer func() {
		if r := recover(); r != nil {
			v = &Violation{Prop: "C05", Obs: "cut.panic", Msg: fmt.Sprintf("panic while recovering: %v", r)}
		}
	}()
	viol := func(obs, f string, a ...any) *Violation {
		return &Violation{Prop: "C05", Obs: "cut." + obs, Msg: fmt.Sprintf(f, a...)}
	}
	tr := iavl.NewMutableTree(img, 0, skip, iavl.NewNopLogger(), opts...)
	lv, err := tr.Load()
	if err != nil {
		return viol("load", "reopening fails: Load() = %d, %v", lv, err)
	}
	av := fmt.Sprint(tr.AvailableVersions())
	if len(tr.AvailableVersions()) == 0 {
		av = "[]"
	}
	var state modelSnap
	switch {
	case av == post.rng():
		state = post
	case av == pre.rng():
		state = pre
	default:
		// DeleteVersionsTo deletes version by version: a shorter deletion is a state "after" a smaller request
		a := tr.AvailableVersions()
		if op.Kind == "prune" && len(a) > 0 && int64(a[len(a)-1]) == pre.latest && int64(a[0]) >= pre.first && int64(a[0]) <= op.N+1 {
			state = modelSnap{vers: map[int64]*VerState{}, first: int64(a[0]), latest: pre.latest}
			for ver := state.first; ver <= state.latest; ver++ {
				state.vers[ver] = pre.vers[ver]
			}
		} else {
			return viol("mixture", "AvailableVersions=%s is neither the state before %s nor after %s", av, pre.rng(), post.rng())
		}
	}
	if lv != state.latest {
		return viol("load", "Load() returned %d, available %s", lv, av)
	}
	if x := verifyState("C05", tr, img, skip, state, tag); x != nil {
		return x
	}
	// repeat the interrupted operation: must succeed and reach the crash-free result
	switch op.Kind {
	case "save":
		if state.latest != post.latest {
			for _, o := range wops {
				if o.Kind == "set" {
					val := o.V
					if val == nil {
						val = []byte{}
					}
					if _, err := tr.Set(o.K, val); err != nil {
						return viol("retry", "Set during retry: %v", err)
					}
				} else if _, _, err := tr.Remove(o.K); err != nil {
					return viol("retry", "Remove during retry: %v", err)
				}
			}
			h, ver, err := tr.SaveVersion()
			if err != nil {
				return viol("retry", "repeating SaveVersion after the crash fails: %v", err)
			}
			if ver != wv || !bytes.Equal(h, rhash(post.vers[wv].Root, 0, false)) {
				return viol("retry", "repeated SaveVersion = %d,%x want %d,%x", ver, h, wv, rhash(post.vers[wv].Root, 0, false))
			}
		}
	case "prune":
		if state.first <= op.N {
			if err := tr.DeleteVersionsTo(op.N); err != nil {
				return viol("retry", "repeating DeleteVersionsTo(%d) after the crash fails: %v", op.N, err)
			}
		}
	case "lvfo":
		if err := tr.LoadVersionForOverwriting(op.N); err != nil {
			return viol("retry", "repeating LoadVersionForOverwriting(%d) after the crash fails: %v", op.N, err)
		}
	case "dvf":
		if err := tr.DeleteVersionsFrom(op.N + 1); err != nil {
			return viol("retry", "repeating DeleteVersionsFrom(%d) after the crash fails: %v", op.N+1, err)
		}
		if lv, err := tr.LoadVersion(op.N); err != nil || lv != op.N {
			return viol("retry", "LoadVersion(%d) after repeating DeleteVersionsFrom(%d) = %d,%v", op.N, op.N+1, lv, err)
		}
	}
	fresh := iavl.NewMutableTree(img, 0, skip, iavl.NewNopLogger(), opts...)
	if lv, err := fresh.Load(); err != nil || lv != post.latest {
		return viol("retry.load", "after repeating %s: Load() = %d,%v want %d", op.Kind, lv, err, post.latest)
	}
	if x := verifyState("C05", fresh, img, skip, post, tag+"retry."); x != nil {
		return x
	}
	return nil
}

// checkCutOlder: the process that comes back after the crash opens the store at an OLDER version first (index enabled):
// whatever recovery work that open performs (a pending index rebuild, ...) must leave every read path of every version
// right, seen through that handle and through a later ordinary open.
func checkCutOlder(img *dbm.MemDB, pre, post modelSnap, op Op, tag string, opts []iavl.Option) (v *Violation) {
	defer func() {
		if r := recover(); r != nil {
			v = &Violation{Prop: "C05", Obs: "cut.older.panic", Msg: fmt.Sprintf("panic while recovering at an older version: %v", r)}
		}
	}()
	viol := func(obs, f string, a ...any) *Violation {
		return &Violation{Prop: "C05", Obs: "cut.older." + obs, Msg: fmt.Sprintf(f, a...)}
	}
	tr := iavl.NewMutableTree(img, 0, false, iavl.NewNopLogger(), opts...)
	a := tr.AvailableVersions()
	av := fmt.Sprint(a)
	var state modelSnap
	switch {
	case av == post.rng():
		state = post
	case av == pre.rng():
		state = pre
	case op.Kind == "prune" && len(a) > 0 && int64(a[len(a)-1]) == pre.latest && int64(a[0]) >= pre.first && int64(a[0]) <= op.N+1:
		state = modelSnap{vers: map[int64]*VerState{}, first: int64(a[0]), latest: pre.latest}
		for ver := state.first; ver <= state.latest; ver++ {
			state.vers[ver] = pre.vers[ver]
		}
	default:
		return nil // (a mixture is reported by the ordinary recovery check)
	}
	if state.latest <= state.first {
		return nil
	}
	target := state.first + (state.latest-state.first)/2 // an older retained version
	if _, err := tr.LoadVersion(target); err != nil {
		return viol("load", "LoadVersion(%d) as the first call after the crash: %v (available %s)", target, err, av)
	}
	vs := state.vers[target]
	for _, kv := range sortedKVs(vs.KV) {
		g, err := tr.Get(kv.K)
		if err != nil || g == nil || !bytes.Equal(g, kv.V) {
			return viol("working.get", "tree loaded at version %d: Get(%q)=%q,%v want %q", target, kv.K, g, err, kv.V)
		}
	}
	for k := range state.vers[state.latest].KV {
		if _, ok := vs.KV[k]; !ok {
			if g, err := tr.Get([]byte(k)); err != nil || g != nil {
				return viol("working.get_absent", "tree loaded at version %d: Get(%q)=%q,%v but the key only exists in later versions", target, k, g, err)
			}
		}
	}
	if x := verifyState("C05", tr, img, false, state, tag+"older."); x != nil {
		return x
	}
	fresh := iavl.NewMutableTree(img, 0, false, iavl.NewNopLogger(), opts...)
	if lv, err := fresh.Load(); err != nil || lv != state.latest {
		return viol("reload", "after a recovery at version %d: Load() = %d,%v want %d", target, lv, err, state.latest)
	}
	return verifyState("C05", fresh, img, false, state, tag+"older.fresh.")
}

func genCrashOp(t *rapid.T, w *World) Op {
	type cand struct {
		op Op
		wt int
	}
	var cs []cand
	if w.Cur == w.Latest {
		cs = append(cs, cand{Op{Kind: "save"}, 10})
	}
	if w.Latest > 0 && w.Cur-1 >= w.First && w.Cur == w.Latest {
		cs = append(cs, cand{Op{Kind: "prune", N: rapid.Int64Range(w.First, w.Cur-1).Draw(t, "pruneTo")}, 6})
	}
	if w.Latest > w.First && !(Open("F3") && w.Cfg.SkipFast && w.EverFast) {
		cs = append(cs, cand{Op{Kind: "lvfo", N: rapid.Int64Range(w.First, w.Latest-1).Draw(t, "lvfoTo")}, 4})
		// rollback by DeleteVersionsFrom + load of the target (same handle / new handle; as the first call on a new handle)
		dvf := Op{Kind: "dvf", N: rapid.Int64Range(w.First, w.Latest-1).Draw(t, "dvfTo"), Flag: rapid.Bool().Draw(t, "dvfNewHandle")}
		if rapid.IntRange(0, 3).Draw(t, "dvfCold") == 0 {
			dvf.Read = "cold"
		}
		cs = append(cs, cand{dvf, 3})
	}
	if w.Latest > 0 {
		// (re)open with the index enabled: first-time build when never indexed, forced rebuild when the label is stale
		c := w.Cfg
		c.SkipFast = false
		c.Flush = rapid.SampledFrom([]int{150, 300, 1000, 100000}).Draw(t, "reopenFlush")
		cs = append(cs, cand{Op{Kind: "reopen", Cfg: &c, Flag: true}, 5})
	}
	tot := 0
	for _, c := range cs {
		tot += c.wt
	}
	if tot == 0 {
		return Op{Kind: "rollback"}
	}
	x := rapid.IntRange(0, tot-1).Draw(t, "crashOp")
	for _, c := range cs {
		if x < c.wt {
			return c.op
		}
		x -= c.wt
	}
	if len(cs) == 0 {
		return Op{Kind: "rollback"}
	}
	return cs[0].op
}

func TestC05(t *testing.T) {
	rapid.Check(t, func(rt *rapid.T) {
		cfg := genCfg(rt, false)
		cfg.Flush = rapid.SampledFrom([]int{150, 150, 150, 300, 300, 1000, 100000}).Draw(rt, "flush0")
		cfg.InitVer = genInitVer(rt)
		w, err := NewWorld("C05", "trace", cfg, Observers{Light: true})
		if err != nil {
			rt.Fatalf("harness: %v", err)
		}
		defer w.Close()
		w.rememberInitialCfg()
		w.trackIndex(Op{Kind: "reopen"})
		steps := rapid.IntRange(crashProfile.MinSteps, crashProfile.MaxSteps).Draw(rt, "steps")
		for i := 0; i < steps; i++ {
			op := GenOp(rt, w, crashProfile)
			if x := w.Apply(op); x != nil {
				reportViolation(rt, "C05", CrashCase{Prop: "C05", Kind: "crash", History: w.History()}, x)
			}
			w.trackIndex(op)
			if x := w.Observe(); x != nil {
				reportViolation(rt, "C05", CrashCase{Prop: "C05", Kind: "crash", History: w.History()}, x)
			}
		}
		// a burst of larger writes so that the operation is likely to be split over several physical batches
		burst := rapid.IntRange(0, 8).Draw(rt, "burst")
		for i := 0; i < burst; i++ {
			op := Op{Kind: "set", K: genKey(rt, w.WKV), V: bigValue}
			if rapid.IntRange(0, 3).Draw(rt, "burstRm") == 0 {
				op = Op{Kind: "remove", K: genRemoveKey(rt, w.WKV)}
			}
			if x := w.Apply(op); x != nil {
				reportViolation(rt, "C05", CrashCase{Prop: "C05", Kind: "crash", History: w.History()}, x)
			}
		}
		hist := w.History()
		hist.Ops = append([]Op{}, hist.Ops...)
		op := genCrashOp(rt, w)
		c := CrashCase{Prop: "C05", Kind: "crash", History: hist, Op: op}
		v, st := crashOp(w, op)
		if v != nil {
			reportViolation(rt, "C05", c, v)
		}
		Count("C05", "cuts_enumerated", st.cuts)
		Count("C05", "interior_cuts_fully_checked", st.interiorChecked)
		Count("C05", "cuts_tolerated_as_F7", st.known)
		Count("C05", fmt.Sprintf("journal_len_%s_%s", op.Kind, bucket(st.jlen)), 1)
		if st.known > 0 {
			KnownHit("C05", "F7")
		}
		RecordCase("C05", c, st.jlen >= 2, st.labels)
	})
}

func bucket(n int) string {
	switch {
	case n <= 1:
		return fmt.Sprint(n)
	case n <= 3:
		return "2-3"
	case n <= 7:
		return "4-7"
	default:
		return "8+"
	}
}

// ---------------------------------------------------------------- import commit cuts

type ImportCrashCase struct {
	Prop     string `json:"property"`
	Kind     string `json:"kind"` // import_crash
	Keys     int    `json:"keys"`
	Versions int    `json:"versions"`
	NoopLast bool   `json:"noop_last"`
	Compress bool   `json:"compress"`
	Skip     bool   `json:"skip_fast"`
	Flush    int    `json:"flush"`
}

func runImportCrash(c ImportCrashCase) (v *Violation, cuts, jlen int) {
	defer func() {
		if r := recover(); r != nil {
			v = &Violation{Prop: "C05", Obs: "import.panic", Msg: fmt.Sprint(r)}
		}
	}()
	src := iavl.NewMutableTree(dbm.NewMemDB(), 0, true, iavl.NewNopLogger())
	var wroot *RNode
	kv := map[string][]byte{}
	var ver int64
	per := c.Keys/c.Versions + 1
	for vv := 1; vv <= c.Versions; vv++ {
		if !(c.NoopLast && vv == c.Versions && vv > 1) {
			for i := 0; i < per; i++ {
				k := []byte(fmt.Sprintf("k%05d", ((vv*per+i)*7919)%100003))
				val := []byte(fmt.Sprintf("v%d", vv))
				_, _ = src.Set(k, val)
				wroot, _ = rset(wroot, k, val)
				kv[string(k)] = val
			}
		}
		_, nv, err := src.SaveVersion()
		if err != nil {
			return &Violation{Prop: "C05", Obs: "harness", Msg: err.Error()}, 0, 0
		}
		ver = nv
		rhash(wroot, ver, true)
	}
	it, _ := src.GetImmutable(ver)
	nodes, err := ExportAll(it, c.Compress)
	if err != nil {
		return &Violation{Prop: "C05", Obs: "harness", Msg: err.Error()}, 0, 0
	}
	tdb := NewTraceDB()
	dst := iavl.NewMutableTree(tdb, 0, c.Skip, iavl.NewNopLogger(), iavl.FlushThresholdOption(c.Flush))
	if err := ImportAll(dst, ver, nodes, c.Compress); err != nil {
		return &Violation{Prop: "C05", Obs: "import.crashfree", Msg: err.Error()}, 0, 0
	}
	journal := tdb.Journal
	post := modelSnap{vers: map[int64]*VerState{ver: {Root: wroot, KV: kv}}, first: ver, latest: ver}
	pre := modelSnap{vers: map[int64]*VerState{}}
	for cut := 0; cut <= len(journal); cut++ {
		for _, skip := range []bool{false, true} {
			cuts++
			img := ImageAt(nil, journal, cut)
			tag := fmt.Sprintf("import.cut%d/%d.", cut, len(journal))
			tr := iavl.NewMutableTree(img, 0, skip, iavl.NewNopLogger())
			lv, err := tr.Load()
			interior := cut > 0 && cut < len(journal)
			if err != nil {
				if !(interior && Open("F18") && len(nodes) >= 10000) {
					return &Violation{Prop: "C05", Obs: "import.cut.load", Msg: fmt.Sprintf("crash after %d of %d physical writes of an import (%d nodes): Load() = %d,%v", cut, len(journal), len(nodes), lv, err)}, cuts, len(journal)
				}
				// aborted multi-batch import: the failing Load() is known (F18); repeating the import must still work
				tr2 := iavl.NewMutableTree(img, 0, skip, iavl.NewNopLogger())
				if err := ImportAll(tr2, ver, nodes, c.Compress); err != nil {
					return &Violation{Prop: "C05", Obs: "import.cut.retry", Msg: fmt.Sprintf("repeating the import after a crash at write %d of %d fails: %v", cut, len(journal), err)}, cuts, len(journal)
				}
				fr := iavl.NewMutableTree(img, 0, skip, iavl.NewNopLogger())
				if l2, err := fr.Load(); err != nil || l2 != ver || !bytes.Equal(fr.Hash(), rhash(wroot, 0, false)) {
					return &Violation{Prop: "C05", Obs: "import.cut.retry", Msg: fmt.Sprintf("after repeating the import Load() = %d,%v", l2, err)}, cuts, len(journal)
				}
				continue
			}
			state := pre
			if lv == ver {
				state = post
			} else if lv != 0 {
				return &Violation{Prop: "C05", Obs: "import.cut.mixture", Msg: fmt.Sprintf("after %d of %d writes Load() = %d", cut, len(journal), lv)}, cuts, len(journal)
			}
			big := len(nodes) >= 10000
			var x *Violation
			if big {
				x = verifyStateLight("C05", tr, state, tag)
			} else {
				x = verifyState("C05", tr, img, skip, state, tag)
			}
			if x != nil {
				x.Msg = fmt.Sprintf("crash after %d of %d physical writes of an import: %s", cut, len(journal), x.Msg)
				return x, cuts, len(journal)
			}
			if lv == 0 {
				// retry the import on the recovered store
				tr2 := iavl.NewMutableTree(img, 0, skip, iavl.NewNopLogger())
				if err := ImportAll(tr2, ver, nodes, c.Compress); err != nil {
					return &Violation{Prop: "C05", Obs: "import.cut.retry", Msg: fmt.Sprintf("repeating the import after a crash at write %d of %d fails: %v", cut, len(journal), err)}, cuts, len(journal)
				}
				fr := iavl.NewMutableTree(img, 0, skip, iavl.NewNopLogger())
				if l2, err := fr.Load(); err != nil || l2 != ver {
					return &Violation{Prop: "C05", Obs: "import.cut.retry", Msg: fmt.Sprintf("after repeating the import Load() = %d,%v", l2, err)}, cuts, len(journal)
				}
				if big {
					x = verifyStateLight("C05", fr, post, tag+"retry.")
				} else {
					x = verifyState("C05", fr, img, skip, post, tag+"retry.")
				}
				if x != nil {
					return x, cuts, len(journal)
				}
			}
		}
	}
	return nil, cuts, len(journal)
}

func TestC05Import(t *testing.T) {
	rapid.Check(t, func(rt *rapid.T) {
		c := ImportCrashCase{Prop: "C05", Kind: "import_crash", Keys: rapid.IntRange(1, 60).Draw(rt, "keys"), Versions: rapid.IntRange(1, 3).Draw(rt, "versions"),
			NoopLast: rapid.Bool().Draw(rt, "noopLast"), Compress: rapid.Bool().Draw(rt, "compress"), Skip: rapid.Bool().Draw(rt, "skip"),
			Flush: rapid.SampledFrom([]int{150, 300, 1000, 100000}).Draw(rt, "flush")}
		if rapid.IntRange(0, 150).Draw(rt, "big") == 0 {
			c.Keys = rapid.IntRange(5001, 5200).Draw(rt, "bigKeys")
			c.Versions = 1
		}
		v, cuts, jlen := runImportCrash(c)
		if v != nil {
			reportViolation(rt, "C05", c, v)
		}
		Count("C05", "cuts_enumerated", cuts)
		Count("C05", "import_crash_cases", 1)
		RecordCase("C05", c, jlen >= 2, map[string]bool{"op_import": true, "split_op_import": jlen >= 2})
	})
}

func init() {
	customReplayers["C05"] = func(raw json.RawMessage) (*Violation, bool) {
		var head struct {
			Kind string `json:"kind"`
		}
		_ = json.Unmarshal(raw, &head)
		switch head.Kind {
		case "crash", "crash_expect_f7":
			var c CrashCase
			if err := json.Unmarshal(raw, &c); err != nil {
				return &Violation{Prop: "C05", Obs: "harness", Msg: err.Error()}, true
			}
			v, st := runCrash(c)
			if v == nil && st.known > 0 && head.Kind == "crash_expect_f7" {
				return &Violation{Prop: "C05", Obs: "cut.known_F7", Msg: fmt.Sprintf("%d interior cuts show the F7 symptoms", st.known)}, true
			}
			return v, true
		case "import_crash":
			var c ImportCrashCase
			if err := json.Unmarshal(raw, &c); err != nil {
				return &Violation{Prop: "C05", Obs: "harness", Msg: err.Error()}, true
			}
			v, _, _ := runImportCrash(c)
			return v, true
		}
		return nil, false
	}
	_ = sort.Strings
}

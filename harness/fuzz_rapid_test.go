package harness

// Coverage-guided campaigns (thorough tier) over the same properties as the rapid checks: rapid.MakeFuzz turns the
// fuzzer's byte string into the draws of the property function, so go's native fuzzer steers the generators by the
// coverage of the library. A failure goes through reportViolation: the JSON replay file is written as usual (the
// fuzzer's own crasher file is moved next to it by the driver).

import (
	"crypto/sha256"
	"os"
	"testing"

	"pgregory.net/rapid"
)

// seedEntropy: rapid.MakeFuzz reads its draws from the fuzzer's bytes and discards an input that runs out of them,
// so the corpus starts with a few long deterministic byte strings (a SHA-256 chain) for the mutator to work on.
func seedEntropy(f *testing.F) {
	for i := 0; i < 6; i++ {
		var buf []byte
		h := sha256.Sum256([]byte{byte(i)})
		for len(buf) < 1024<<uint(i%4) {
			buf = append(buf, h[:]...)
			h = sha256.Sum256(h[:])
		}
		f.Add(buf)
	}
}

func FuzzC18Programs(f *testing.F) {
	seedEntropy(f)
	f.Fuzz(rapid.MakeFuzz(func(rt *rapid.T) {
		if os.Getenv("VERIF_LEVEL") != "" {
			rt.Skip("MemDB family only")
		}
		c := genC18(rt)
		if v, _ := runC18(c); v != nil {
			reportViolation(rt, "C18", c, v)
		}
	}))
}

// (The same construction over the World-based state machines - tried for C08 and C15 - ran at about 2 executions per
// second and skipped most inputs for lack of entropy: coverage-guided search over a bit stream does not suit generators
// whose every draw depends on the state reached so far. Those properties stay with rapid; see DESIGN.md section 10.)

package harness

// Storage seam: a corestore.KVStoreWithBatch wrapper that (a) journals every physical write as one
// atomic entry, (b) counts storage calls by kind, (c) injects faults at chosen call positions and
// (d) offers an OnCall hook at which a goroutine can be parked (C06). (b)-(d) never change results.

import (
	"errors"
	"fmt"
	"sync"

	corestore "cosmossdk.io/core/store"
	dbm "github.com/cosmos/iavl/db"
)

type WOp struct {
	Del  bool
	K, V []byte
}

type TraceDB struct {
	mu      sync.Mutex
	inner   corestore.KVStoreWithBatch
	Journal [][]WOp // each entry is one atomic physical write
	calls   int
	Kinds   map[string]int
	FailAt  map[int]bool // fail the k-th storage call (1-based)
	// FailKindNth: fail the n-th call (1-based) of the given kind (e.g. "BatchWrite": 2)
	FailKindNth map[string]int
	FailLog []string
	Reads   int                // Get + Has calls (C11)
	OnCall  func(kind string) // called outside the lock before the call is carried out
	NoJournal bool
}

var ErrInjected = errors.New("injected storage fault")

func NewTraceDB() *TraceDB { return &TraceDB{inner: dbm.NewMemDB(), Kinds: map[string]int{}} }

func NewTraceDBOn(inner corestore.KVStoreWithBatch) *TraceDB {
	return &TraceDB{inner: inner, Kinds: map[string]int{}}
}

func (t *TraceDB) tick(what string) error {
	if f := t.OnCall; f != nil {
		f(what)
	}
	t.mu.Lock()
	defer t.mu.Unlock()
	t.calls++
	t.Kinds[what]++
	if what == "Get" || what == "Has" {
		t.Reads++
	}
	if n, ok := t.FailKindNth[what]; ok && t.Kinds[what] == n {
		t.FailLog = append(t.FailLog, fmt.Sprintf("%d:%s", t.calls, what))
		return fmt.Errorf("%w at call %d (%s #%d)", ErrInjected, t.calls, what, n)
	}
	if t.FailAt != nil && t.FailAt[t.calls] {
		t.FailLog = append(t.FailLog, fmt.Sprintf("%d:%s", t.calls, what))
		return fmt.Errorf("%w at call %d (%s)", ErrInjected, t.calls, what)
	}
	return nil
}
// KindCount returns the number of calls of one kind (safe while other goroutines use the store).
func (t *TraceDB) KindCount(kind string) int {
	t.mu.Lock()
	defer t.mu.Unlock()
	return t.Kinds[kind]
}

func (t *TraceDB) Calls() int { t.mu.Lock(); defer t.mu.Unlock(); return t.calls }
func (t *TraceDB) ResetCounters() {
	t.mu.Lock()
	defer t.mu.Unlock()
	t.calls, t.Reads = 0, 0
	t.Kinds = map[string]int{}
	t.FailLog = nil
}
func (t *TraceDB) ResetJournal() { t.mu.Lock(); t.Journal = nil; t.mu.Unlock() }

func (t *TraceDB) journal(ops []WOp) {
	if t.NoJournal {
		return
	}
	t.mu.Lock()
	t.Journal = append(t.Journal, ops)
	t.mu.Unlock()
}

func (t *TraceDB) Get(k []byte) ([]byte, error) {
	if err := t.tick("Get"); err != nil {
		return nil, err
	}
	return t.inner.Get(k)
}
func (t *TraceDB) Has(k []byte) (bool, error) {
	if err := t.tick("Has"); err != nil {
		return false, err
	}
	return t.inner.Has(k)
}
func (t *TraceDB) Set(k, v []byte) error {
	if err := t.tick("Set"); err != nil {
		return err
	}
	t.journal([]WOp{{K: cp(k), V: cp(v)}})
	return t.inner.Set(k, v)
}
func (t *TraceDB) Delete(k []byte) error {
	if err := t.tick("Delete"); err != nil {
		return err
	}
	t.journal([]WOp{{Del: true, K: cp(k)}})
	return t.inner.Delete(k)
}
func (t *TraceDB) Iterator(s, e []byte) (corestore.Iterator, error) {
	if err := t.tick("Iterator"); err != nil {
		return nil, err
	}
	it, err := t.inner.Iterator(s, e)
	if err != nil {
		return nil, err
	}
	return &traceIter{Iterator: it, t: t}, nil
}
func (t *TraceDB) ReverseIterator(s, e []byte) (corestore.Iterator, error) {
	if err := t.tick("ReverseIterator"); err != nil {
		return nil, err
	}
	it, err := t.inner.ReverseIterator(s, e)
	if err != nil {
		return nil, err
	}
	return &traceIter{Iterator: it, t: t}, nil
}
func (t *TraceDB) Close() error                         { return nil }
func (t *TraceDB) NewBatch() corestore.Batch            { return &traceBatch{t: t} }
func (t *TraceDB) NewBatchWithSize(int) corestore.Batch { return &traceBatch{t: t} }

type traceIter struct {
	corestore.Iterator
	t   *TraceDB
	err error
}

func (i *traceIter) Next() {
	if err := i.t.tick("IterNext"); err != nil {
		i.err = err
		return
	}
	i.Iterator.Next()
}
func (i *traceIter) Valid() bool {
	if i.err != nil {
		return false
	}
	return i.Iterator.Valid()
}
func (i *traceIter) Error() error {
	if i.err != nil {
		return i.err
	}
	return i.Iterator.Error()
}

type traceBatch struct {
	t      *TraceDB
	ops    []WOp
	size   int
	closed bool
}

func (b *traceBatch) Set(k, v []byte) error {
	if b.closed {
		return errors.New("batch closed")
	}
	if len(k) == 0 {
		return errors.New("empty key")
	}
	if v == nil {
		return errors.New("nil value")
	}
	if err := b.t.tick("BatchSet"); err != nil {
		return err
	}
	b.ops = append(b.ops, WOp{K: cp(k), V: cp(v)})
	b.size += len(k) + len(v)
	return nil
}
func (b *traceBatch) Delete(k []byte) error {
	if b.closed {
		return errors.New("batch closed")
	}
	if len(k) == 0 {
		return errors.New("empty key")
	}
	if err := b.t.tick("BatchDelete"); err != nil {
		return err
	}
	b.ops = append(b.ops, WOp{Del: true, K: cp(k)})
	b.size += len(k)
	return nil
}
func (b *traceBatch) Write() error {
	if b.closed {
		return errors.New("batch closed")
	}
	if err := b.t.tick("BatchWrite"); err != nil {
		return err
	}
	if len(b.ops) > 0 {
		b.t.journal(b.ops)
	}
	for _, op := range b.ops {
		if op.Del {
			_ = b.t.inner.Delete(op.K)
		} else {
			_ = b.t.inner.Set(op.K, op.V)
		}
	}
	b.closed = true
	return nil
}
func (b *traceBatch) WriteSync() error { return b.Write() }
func (b *traceBatch) Close() error     { b.closed = true; return nil }
func (b *traceBatch) GetByteSize() (int, error) {
	if b.closed {
		return 0, errors.New("batch closed")
	}
	return b.size, nil
}

// ImageAt returns a fresh MemDB holding base + the first n journal entries.
func ImageAt(base map[string][]byte, journal [][]WOp, n int) *dbm.MemDB {
	db := dbm.NewMemDB()
	for k, v := range base {
		_ = db.Set([]byte(k), v)
	}
	for i := 0; i < n; i++ {
		for _, op := range journal[i] {
			if op.Del {
				_ = db.Delete(op.K)
			} else {
				_ = db.Set(op.K, op.V)
			}
		}
	}
	return db
}

func MemDBFrom(base map[string][]byte) *dbm.MemDB { return ImageAt(base, nil, 0) }

// DumpDB returns the complete raw contents of a store.
func DumpDB(db corestore.KVStoreWithBatch) map[string][]byte {
	if t, ok := db.(*TraceDB); ok {
		db = t.inner
	}
	m := map[string][]byte{}
	it, err := db.Iterator(nil, nil)
	if err != nil {
		panic(err)
	}
	defer it.Close()
	for ; it.Valid(); it.Next() {
		m[string(it.Key())] = cp(it.Value())
	}
	return m
}

func eqDump(a, b map[string][]byte) bool {
	if len(a) != len(b) {
		return false
	}
	for k, v := range a {
		w, ok := b[k]
		if !ok || string(v) != string(w) {
			return false
		}
	}
	return true
}

package harness

import (
	"os"
	"strings"
	"testing"
)

func maxVersionKeys(w *World) int {
	m := 0
	for _, vs := range w.Vers {
		if len(vs.KV) > m {
			m = len(vs.KV)
		}
	}
	return m
}

func backendsFor(def []string) []string {
	if os.Getenv("VERIF_LEVEL") != "" {
		return []string{"level"}
	}
	return def
}

// knownCommon classifies violations that are instances of open findings shared by several properties.
func knownCommon(w *World, v *Violation) string {
	if w.F3Exposed && !w.Cfg.SkipFast && fastPathObserver(v.Obs) {
		return "F3"
	}
	return ""
}

// fastPathObserver: observers whose answers are (or may be) served through the fast index.
func fastPathObserver(obs string) bool {
	obs = strings.TrimPrefix(obs, "fresh.")
	switch obs {
	case "working.get", "working.get_absent", "working.iterate", "working.iterator", "working.iterator_desc",
		"version.get", "version.get_absent", "version.getversioned", "version.getversioned_absent", "version.iterate",
		"version.iterator_desc", "audit.fast", "working.has", "working.has_absent", "version.has", "version.has_absent":
		return true
	}
	return false
}

var specC01 = &worldSpec{
	Prop: "C01",
	Profile: &Profile{MinSteps: 20, MaxSteps: 70, W: weights(nil),
		Backends: []string{"mem", "mem", "mem", "trace", "prefix", "prefix"}},
	Obs:  Observers{Reads: true},
	Rule: "history of 20-70 steps over {set,remove,setnil,save,rollback,reopen(cfg re-drawn, latest|older),prune,lvfo,dvf}; non-trivial = >=2 commits, a retained or past version with >=2 keys, and at least one of {removal, reopen, prune, rollback}; distinct = sha256 of the JSON history",
	Nontrivial: func(w *World) bool {
		return w.Cnt["commits"] >= 2 && w.Cnt["max_keys"] >= 2 &&
			(w.Labels["removal"] || w.Labels["reopen"] || w.Labels["prune"] || w.Labels["rollback"] || w.Labels["lvfo"] || w.Labels["dvf"])
	},
	Known: knownCommon,
	After: func(w *World, op Op) *Violation {
		if n := len(w.WKV); n > w.Cnt["max_keys"] {
			w.Cnt["max_keys"] = n
		}
		return nil
	},
}

func TestC01(t *testing.T) {
	s := *specC01
	p := *s.Profile
	p.Backends = backendsFor(p.Backends)
	s.Profile = &p
	runWorldSpec(t, &s)
}

var allSpecs = []*worldSpec{specC01}

func registerAllSpecs() {
	for _, s := range allSpecs {
		worldSpecs[s.Prop] = s
	}
}

var _ = strings.Contains

package harness

import (
	"os"
	"strings"
	"testing"

	"pgregory.net/rapid"
)

func maxVersionKeys(w *World) int {
	m := 0
	for _, vs := range w.Vers {
		if len(vs.KV) > m {
			m = len(vs.KV)
		}
	}
	return m
}

func backendsFor(def []string) []string {
	if os.Getenv("VERIF_LEVEL") != "" {
		return []string{"level"}
	}
	return def
}

// knownCommon classifies violations that are instances of open findings shared by several properties.
func knownCommon(w *World, v *Violation) string {
	if w.F3Exposed && !w.Cfg.SkipFast && fastPathObserver(v.Obs) {
		return "F3"
	}
	if w.F1Exposed && (strings.HasSuffix(v.Obs, ".hash") || strings.Contains(v.Obs, "proof.")) {
		return "F1"
	}
	return ""
}

// fastPathObserver: observers whose answers are (or may be) served through the fast index.
func fastPathObserver(obs string) bool {
	obs = strings.TrimPrefix(obs, "fresh.")
	switch obs {
	case "working.get", "working.get_absent", "working.iterate", "working.iterator", "working.iterator_desc",
		"version.get", "version.get_absent", "version.getversioned", "version.getversioned_absent", "version.iterate",
		"version.iterator_desc", "audit.fast", "working.has", "working.has_absent", "version.has", "version.has_absent":
		return true
	}
	return false
}

var specC01 = &worldSpec{
	Prop: "C01",
	Profile: &Profile{MinSteps: 20, MaxSteps: 70, W: weights(nil),
		Backends: []string{"mem", "mem", "mem", "trace", "prefix", "prefix"}},
	Obs:  Observers{Reads: true},
	Rule: "history of 20-70 steps over {set,remove,setnil,save,rollback,reopen(cfg re-drawn, latest|older),prune,lvfo,dvf}; non-trivial = >=2 commits, a retained or past version with >=2 keys, and at least one of {removal, reopen, prune, rollback}; distinct = sha256 of the JSON history",
	Nontrivial: func(w *World) bool {
		return w.Cnt["commits"] >= 2 && w.Cnt["max_keys"] >= 2 &&
			(w.Labels["removal"] || w.Labels["reopen"] || w.Labels["prune"] || w.Labels["rollback"] || w.Labels["lvfo"] || w.Labels["dvf"])
	},
	Known: knownCommon,
	After: trackMaxKeys,
}

func TestC01(t *testing.T) { runWorldSpec(t, withLevel(specC01)) }

func trackMaxKeys(w *World, op Op) *Violation {
	if n := len(w.WKV); n > w.Cnt["max_keys"] {
		w.Cnt["max_keys"] = n
	}
	return nil
}

// ---------------------------------------------------------------- C02 canonical root hash
var specC02 = &worldSpec{
	Prop: "C02",
	Profile: &Profile{MinSteps: 20, MaxSteps: 70,
		W:        weights(map[string]int{"read": 22, "hop": 2, "setnil": 0, "remove": 16}),
		Backends: []string{"mem", "mem", "trace", "prefix"}},
	Obs:  Observers{Hash: true, NoStepWorkingHash: true},
	Rule: "history of 20-70 steps incl. read-only calls applied to the real tree only (Get, Has, GetWithIndex, GetByIndex, Iterate, partial Iterator, GetProof/Membership/NonMembership on the working tree, GetVersionedProof, Hash, WorkingHash, ImmutableTree.Hash, GetVersioned, GetImmutable, partial Export), reopen/prune/rollback/export-import hops, InitialVersion in {unset,1,2,7,2^33}; WorkingHash, SaveVersion hash+version, Hash and the hash of every retained version are compared with the reference IAVL+ implementation after every step; non-trivial = reference performed >=1 rotation and >=1 removal, >=3 commits, >=1 read step while the working tree was dirty",
	Nontrivial: func(w *World) bool {
		return w.Cnt["rotations"] >= 1 && w.Cnt["removals"] >= 1 && w.Cnt["commits"] >= 3 && w.Labels["read_while_dirty"]
	},
	Known: knownCommon,
}

func TestC02(t *testing.T) { runWorldSpec(t, withLevel(specC02)) }

// ---------------------------------------------------------------- C03 ICS-23 proofs
var specC03 = &worldSpec{
	Prop: "C03",
	Profile: &Profile{MinSteps: 12, MaxSteps: 40,
		W:        weights(map[string]int{"setnil": 0, "lvfo": 1, "dvf": 1, "prune": 5}),
		Backends: []string{"mem"}},
	Obs:  Observers{Proofs: true},
	Rule: "history of 12-40 steps; after every step, for every retained non-empty version and the working tree and every probe key (all present keys; absent: below min, above max, neighbours, prefixes, extensions) the proof of the right kind must be produced and must verify with ics23.Verify(Non)Membership(IavlSpec) against the REFERENCE root; it must not verify for another value, another key, the opposite claim or the reference root of another retained version in which the claim is false; wrong-kind requests must error. non-trivial = some version with >=2 keys, both proof kinds exercised, and a proof path with nodes of >=2 versions; distinct = sha256 of the history",
	Nontrivial: func(w *World) bool {
		return w.Cnt["max_keys"] >= 2 && w.Cnt["membership_proofs"] > 0 && w.Cnt["nonmembership_proofs"] > 0 && w.Labels["proof_path_multi_version"]
	},
	Known: knownCommon,
	After: func(w *World, op Op) *Violation {
		trackMaxKeys(w, op)
		return w.checkWorkingProofs()
	},
}

func TestC03(t *testing.T) { runWorldSpec(t, withLevel(specC03)) }

// ---------------------------------------------------------------- C04 pruning safety
var pruneWeights = map[string]int{"set": 22, "remove": 12, "save": 30, "prune": 14, "prune_refuse": 3, "rollback": 3, "reopen": 6, "lvfo": 4, "dvf": 2, "setnil": 0}

var specC04 = &worldSpec{
	Prop: "C04",
	Profile: &Profile{MinSteps: 15, MaxSteps: 50, W: weights(pruneWeights),
		Backends: []string{"trace", "trace", "mem", "prefix"}},
	Obs:  Observers{Reads: true, Hash: true, Proofs: true, Fresh: true},
	Rule: "history of 15-50 steps biased to commits without writes, empty and 1-leaf versions, rollbacks, cold-cache reopens and flush thresholds 150/300/1000/100000; DeleteVersionsTo(n) for n in [first-1, base-1] plus refusal probes n in {latest, latest+1} (error + byte-identical store); after every step all retained versions are re-checked (contents, hash, proofs against reference roots) through the live handle and after each prune/rollback through a fresh handle; deleted versions must be unavailable. non-trivial = a prune that deleted >=1 version adjacent to a no-op/empty/1-leaf version or whose writes were split over >=2 physical batch writes",
	Nontrivial: func(w *World) bool { return w.Labels["prune_special"] || w.Labels["prune_split"] },
	Known:      knownCommon,
	After:      trackMaxKeys,
}

func TestC04(t *testing.T) { runWorldSpec(t, withLevel(specC04)) }

// ---------------------------------------------------------------- C07 fast index coherence
var specC07 = &worldSpec{
	Prop: "C07",
	Profile: &Profile{MinSteps: 15, MaxSteps: 60,
		W:        weights(map[string]int{"reopen": 16, "setnil": 0, "hop": 1, "remove": 16, "lvfo": 5, "dvf": 3}),
		Backends: []string{"mem", "mem", "trace", "prefix"}},
	Obs:  Observers{Fast: true, Reads: true},
	Rule: "history of 15-60 steps where every (re)open independently draws fast index on/off and the version to load, interleaved with writes, removals (incl. set+remove inside one version), commits, rollbacks, pruning and import hops; after every step Get == GetWithIndex == model for every probe key, MutableTree.Iterator/Iterate == ImmutableTree.IterateRange == model (both directions), GetVersioned == GetImmutable(v).GetWithIndex == model, and whenever the live handle has the index enabled the raw f-entries decoded independently equal the model's latest map exactly with label 1.1.0-<latest>. non-trivial = a (re)open that changed the fast setting or loaded a non-latest version, with a committed write before and after it",
	Nontrivial: func(w *World) bool {
		return (w.Labels["fast_toggle"] || w.Labels["reopen_old"]) && w.Cnt["writing_commits"] >= 2 && w.Labels["write_after_reopen"]
	},
	Known: knownCommon,
	After: func(w *World, op Op) *Violation {
		if op.Kind == "save" && (w.Labels["fast_toggle"] || w.Labels["reopen_old"]) {
			w.Labels["write_after_reopen"] = true
		}
		return nil
	},
}

func TestC07(t *testing.T) { runWorldSpec(t, withLevel(specC07)) }

// ---------------------------------------------------------------- C12 storage == reachable nodes
var specC12 = &worldSpec{
	Prop: "C12",
	Profile: &Profile{MinSteps: 15, MaxSteps: 55, W: weights(mergeW(pruneWeights, map[string]int{"hop": 2, "lvfo": 5, "dvf": 3})),
		Backends: []string{"mem", "mem", "trace", "prefix"}},
	Obs:  Observers{Audit: true, Light: true},
	Rule: "crash-free history of 15-55 steps (C04 profile + imports) with synchronous pruning; after every step the raw s-entries (decoded by the independent codec) are compared with the set reachable from the root markers of the model's retained versions following stored child links: nothing missing, nothing unreachable, no root key of a non-retained version; f-entries == latest map when the live handle has the index enabled; at the end every key is removed, committed and older versions pruned: exactly the empty root marker may remain. non-trivial = a prune or rollback that removed >=1 stored node while >=2 versions stayed retained",
	Nontrivial: func(w *World) bool { return w.Labels["deleted_nodes_with_ge2_retained"] },
	Known:      knownCommon,
	After: func(w *World, op Op) *Violation {
		n := 0
		for k := range w.rawDump() {
			if k[0] == 's' {
				n++
			}
		}
		if (op.Kind == "prune" || op.Kind == "lvfo" || op.Kind == "dvf") && n < w.Cnt["last_s_count"] && len(w.Vers) >= 2 {
			w.Labels["deleted_nodes_with_ge2_retained"] = true
		}
		w.Cnt["last_s_count"] = n
		return nil
	},
	End: func(t *rapid.T, w *World) *Violation { return w.drainToEmpty() },
}

func TestC12(t *testing.T) { runWorldSpec(t, withLevel(specC12)) }

// ---------------------------------------------------------------- C13a lib -> independent decoder
var specC13 = &worldSpec{
	Prop: "C13",
	Profile: &Profile{MinSteps: 12, MaxSteps: 45, W: weights(map[string]int{"save": 24, "hop": 1}),
		Backends: []string{"mem", "mem", "prefix"}},
	Obs:  Observers{Fields: true, Light: true},
	Rule: "(a) history of 12-45 steps; after every step the independent decoder reads the raw store and must reproduce, per retained version, exactly the reference tree: keys, values, heights, sizes, node versions (= key version), hashes of inner nodes, child links, root markers (node | 13-byte reference | empty); node keys must sort numerically by (version, nonce). non-trivial = >=1 inner node and >=1 reference or empty root on disk",
	Nontrivial: func(w *World) bool {
		return w.Labels["inner_on_disk"] && (w.Labels["ref_root_on_disk"] || w.Labels["empty_root_on_disk"])
	},
	Known: knownCommon,
	After: func(w *World, op Op) *Violation { return w.checkKeyOrder() },
}

func TestC13a(t *testing.T) { runWorldSpec(t, withLevel(specC13)) }

// ---------------------------------------------------------------- C14 version bookkeeping
var specC14 = &worldSpec{
	Prop: "C14",
	Profile: &Profile{MinSteps: 15, MaxSteps: 55, W: weights(mergeW(pruneWeights, map[string]int{"reopen": 12, "save": 26})),
		Backends: []string{"mem", "mem", "trace", "prefix"}},
	Obs:  Observers{Versions: true, Fresh: true, Light: true},
	Rule: "history of 15-55 steps (C04 profile + InitialVersion unset/1/2/7/2^33, reopen at older versions and re-commit); after every step and through a fresh handle after prune/rollback: commit numbers consecutive from 1 or InitialVersion; VersionExists(v), GetImmutable(v), GetVersioned(k,v), LoadVersion(v) on a throw-away handle for every v in {0,1} U [first-ever-1, latest+1], AvailableVersions, GetLatestVersion agree with the model range; re-commit of an existing number succeeds without effect iff the reference hashes are equal, else errors with a byte-identical store. non-trivial = >=1 prune or rollback of versions and >=1 reopen",
	Nontrivial: func(w *World) bool {
		return (w.Labels["prune"] || w.Labels["rollback_versions"]) && w.Labels["reopen"]
	},
	Known: knownCommon,
	After: func(w *World, op Op) *Violation { return w.checkLoadEach() },
}

func TestC14(t *testing.T) { runWorldSpec(t, withLevel(specC14)) }

func mergeW(a, b map[string]int) map[string]int {
	m := map[string]int{}
	for k, v := range a {
		m[k] = v
	}
	for k, v := range b {
		m[k] = v
	}
	return m
}

func withLevel(s *worldSpec) *worldSpec {
	c := *s
	p := *s.Profile
	p.Backends = backendsFor(p.Backends)
	c.Profile = &p
	return &c
}

var allSpecs = []*worldSpec{specC01, specC02, specC03, specC04, specC07, specC12, specC13, specC14}

func registerAllSpecs() {
	for _, s := range allSpecs {
		worldSpecs[s.Prop] = s
	}
}

var _ = strings.Contains

package harness

import (
	"bytes"
	"os"
	"strings"
	"testing"

	"github.com/cosmos/iavl"
	"pgregory.net/rapid"
)

func maxVersionKeys(w *World) int {
	m := 0
	for _, vs := range w.Vers {
		if len(vs.KV) > m {
			m = len(vs.KV)
		}
	}
	return m
}

func backendsFor(def []string) []string {
	if os.Getenv("VERIF_LEVEL") != "" {
		return []string{"level"}
	}
	return def
}

// knownCommon classifies violations that are instances of open findings shared by several properties.
func knownCommon(w *World, v *Violation) string {
	if w.F3Exposed && !w.Cfg.SkipFast && fastPathObserver(v.Obs) {
		return "F3"
	}
	if w.F29Exposed {
		return "F29"
	}
	if w.F1Exposed && (strings.HasSuffix(v.Obs, ".hash") || strings.Contains(v.Obs, "proof.")) {
		return "F1"
	}
	return ""
}

// fastPathObserver: observers whose answers are (or may be) served through the fast index.
func fastPathObserver(obs string) bool {
	obs = strings.TrimPrefix(obs, "fresh.")
	switch obs {
	case "working.get", "working.get_absent", "working.iterate", "working.iterator", "working.iterator_desc",
		"version.get", "version.get_absent", "version.getversioned", "version.getversioned_absent", "version.iterate",
		"version.iterator_desc", "audit.fast", "working.has", "working.has_absent", "version.has", "version.has_absent":
		return true
	}
	return false
}

var specC01 = &worldSpec{
	Prop: "C01",
	Profile: &Profile{MinSteps: 20, MaxSteps: 70, QuietOneIn: 4, W: weights(map[string]int{"replay": 8, "hold": 4, "reload": 5, "reload_invalid": 1, "setinit": 1}),
		Backends: []string{"mem", "mem", "mem", "trace", "prefix", "prefix"}},
	Obs:  Observers{Reads: true},
	Rule: "history of 20-70 steps over {set,remove,setnil,save,rollback,reopen(cfg re-drawn, latest|older),reload(LoadVersion on the live handle, latest|older; out-of-range targets must fail without effect),hold(an ImmutableTree kept and re-read after every later step),vread(a checked read / proof / hash of one drawn version, preferably the version asked for last time),replay(after a reopen at an older version: the recorded writes of the next existing version + its idempotent re-commit),prune,lvfo,dvf}; in a quarter of the cases (quiet cases) the observers run only after the last step and the checked steps are the vread steps, so that the observers own calls cannot refresh a stale cache; non-trivial = >=2 commits, a retained or past version with >=2 keys, and at least one of {removal, reopen, prune, rollback}; distinct = sha256 of the JSON history",
	Nontrivial: func(w *World) bool {
		return w.Cnt["commits"] >= 2 && w.Cnt["max_keys"] >= 2 &&
			(w.Labels["removal"] || w.Labels["reopen"] || w.Labels["prune"] || w.Labels["rollback"] || w.Labels["lvfo"] || w.Labels["dvf"])
	},
	Known: knownCommon,
	After: trackMaxKeys,
}

func TestC01(t *testing.T) { runWorldSpec(t, withLevel(specC01)) }

func trackMaxKeys(w *World, op Op) *Violation {
	if n := len(w.WKV); n > w.Cnt["max_keys"] {
		w.Cnt["max_keys"] = n
	}
	return nil
}

// ---------------------------------------------------------------- C02 canonical root hash
var specC02 = &worldSpec{
	Prop: "C02",
	Profile: &Profile{MinSteps: 20, MaxSteps: 70, QuietOneIn: 5,
		W:        weights(map[string]int{"read": 22, "hop": 2, "remove": 16, "replay": 12, "hold": 3, "reload": 4, "setinit": 2, "setnil": 2}),
		Backends: []string{"mem", "mem", "trace", "prefix"}},
	Obs:  Observers{Hash: true, NoStepWorkingHash: true},
	Rule: "history of 20-70 steps incl. read-only calls applied to the real tree only (Get, Has, GetWithIndex, GetByIndex, Iterate, partial Iterator, GetProof/Membership/NonMembership on the working tree, GetVersionedProof, Hash, WorkingHash, ImmutableTree.Hash, GetVersioned, GetImmutable, partial Export), reopen/prune/rollback/export-import hops, restart at an older version + replay of the existing versions (idempotent re-commits) + continuation, rejected Set(k,nil) calls and SetInitialVersion on a non-empty store (both documented as without effect), InitialVersion in {unset,1,2,7,63,64,127,128,8191,8192,2^31-1,2^33} by option or setter; WorkingHash, SaveVersion hash+version, Hash and the hash of every retained version are compared with the reference IAVL+ implementation after every step; non-trivial = reference performed >=1 rotation and >=1 removal, >=3 commits, >=1 read step while the working tree was dirty",
	Nontrivial: func(w *World) bool {
		return w.Cnt["rotations"] >= 1 && w.Cnt["removals"] >= 1 && w.Cnt["commits"] >= 3 && w.Labels["read_while_dirty"]
	},
	Known: knownCommon,
}

func TestC02(t *testing.T) { runWorldSpec(t, withLevel(specC02)) }

// ---------------------------------------------------------------- C03 ICS-23 proofs
var specC03 = &worldSpec{
	Prop: "C03",
	Profile: &Profile{MinSteps: 12, MaxSteps: 40, QuietOneIn: 3,
		W:        weights(map[string]int{"setnil": 0, "lvfo": 4, "dvf": 1, "prune": 5, "setinit": 2, "vread": 3, "hop": 2, "replay": 30, "reload": 12}),
		Backends: []string{"mem"}},
	Obs:  Observers{Proofs: true},
	Rule: "history of 12-40 steps (incl. export / import hops, plain and compressed: the history continues on the imported store; loads of an older version on the live handle followed by the replay of the recorded writes of the existing next version and its idempotent re-commit); after every step, for every retained non-empty version and the working tree and every probe key (all present keys; absent: below min, above max, neighbours, prefixes, extensions) the proof of the right kind must be produced and must verify with ics23.Verify(Non)Membership(IavlSpec) against the REFERENCE root; it must not verify for another value, another key, the opposite claim or the reference root of another retained version in which the claim is false; wrong-kind requests must error; on committed versions the tree's own VerifyMembership / VerifyNonMembership / VerifyProof accept its proofs and reject the opposite claim. non-trivial = some version with >=2 keys, both proof kinds exercised, and a proof path with nodes of >=2 versions; distinct = sha256 of the history",
	Nontrivial: func(w *World) bool {
		return w.Cnt["max_keys"] >= 2 && w.Cnt["membership_proofs"] > 0 && w.Cnt["nonmembership_proofs"] > 0 && w.Labels["proof_path_multi_version"]
	},
	Known: knownCommon,
	After: func(w *World, op Op) *Violation {
		trackMaxKeys(w, op)
		return w.checkWorkingProofs()
	},
}

func TestC03(t *testing.T) { runWorldSpec(t, withLevel(specC03)) }

// ---------------------------------------------------------------- C04 pruning safety
var pruneWeights = map[string]int{"replay": 6, "hold": 3, "set": 22, "remove": 12, "save": 30, "prune": 14, "prune_refuse": 3, "rollback": 3, "reopen": 6, "lvfo": 4, "dvf": 2, "setnil": 0, "pin": 3, "unpin": 3}

var specC04 = &worldSpec{
	Prop: "C04",
	Profile: &Profile{MinSteps: 15, MaxSteps: 50, W: weights(pruneWeights),
		Backends: []string{"trace", "trace", "mem", "prefix"}},
	Obs:  Observers{Reads: true, Hash: true, Proofs: true, Fresh: true},
	Rule: "history of 15-50 steps biased to commits without writes, empty and 1-leaf versions, rollbacks, cold-cache reopens and flush thresholds 150/300/1000/100000; DeleteVersionsTo(n) for n in [first-1, base-1] plus refusal probes n in {latest, latest+1} (error + byte-identical store); after every step all retained versions are re-checked (contents, hash, proofs against reference roots) through the live handle and after each prune/rollback through a fresh handle, and after every commit / prune / rollback also through a new handle that reads the retained versions WITHOUT loading anything first; deleted versions must be unavailable. non-trivial = a prune that deleted >=1 version adjacent to a no-op/empty/1-leaf version or whose writes were split over >=2 physical batch writes",
	Nontrivial: func(w *World) bool { return w.Labels["prune_special"] || w.Labels["prune_split"] },
	Known:      knownCommon,
	After: func(w *World, op Op) *Violation {
		if v := trackMaxKeys(w, op); v != nil {
			return v
		}
		switch op.Kind {
		case "prune", "lvfo", "dvf", "save", "replay":
			// "after the process is restarted": a new handle whose first calls are reads of retained versions, not Load
			return w.checkUnloadedHandle()
		}
		return nil
	},
}

func TestC04(t *testing.T) { runWorldSpec(t, withLevel(specC04)) }

// ---------------------------------------------------------------- C07 fast index coherence
var specC07 = &worldSpec{
	Prop: "C07",
	Profile: &Profile{MinSteps: 15, MaxSteps: 60, QuietOneIn: 4,
		W:        weights(map[string]int{"reopen": 16, "setnil": 0, "hop": 1, "remove": 16, "lvfo": 5, "dvf": 3, "replay": 8, "hold": 5, "reload": 6}),
		Backends: []string{"mem", "mem", "trace", "prefix"}},
	Obs:  Observers{Fast: true, Reads: true},
	Rule: "history of 15-60 steps where every (re)open independently draws fast index on/off and the version to load, interleaved with writes, removals (incl. set+remove inside one version), commits, rollbacks, pruning and import hops; after every step Get == GetWithIndex == model for every probe key, MutableTree.Iterator/Iterate == ImmutableTree.IterateRange == model (both directions), GetVersioned == GetImmutable(v).GetWithIndex == model, and whenever the live handle has the index enabled the raw f-entries decoded independently equal the model's latest map exactly with label 1.1.0-<latest>. non-trivial = a (re)open that changed the fast setting or loaded a non-latest version, with a committed write before and after it",
	Nontrivial: func(w *World) bool {
		return (w.Labels["fast_toggle"] || w.Labels["reopen_old"]) && w.Cnt["writing_commits"] >= 2 && w.Labels["write_after_reopen"]
	},
	Known: knownCommon,
	After: func(w *World, op Op) *Violation {
		if op.Kind == "save" && (w.Labels["fast_toggle"] || w.Labels["reopen_old"]) {
			w.Labels["write_after_reopen"] = true
		}
		return w.checkUnloadedHandle()
	},
}

func TestC07(t *testing.T) { runWorldSpec(t, withLevel(specC07)) }

// ---------------------------------------------------------------- C12 storage == reachable nodes
var specC12 = &worldSpec{
	Prop: "C12",
	Profile: &Profile{MinSteps: 15, MaxSteps: 55, W: weights(mergeW(pruneWeights, map[string]int{"hop": 2, "lvfo": 5, "dvf": 3})),
		Backends: []string{"mem", "mem", "trace", "prefix"}},
	Obs:  Observers{Audit: true, Light: true},
	Rule: "crash-free history of 15-55 steps (C04 profile + imports) with synchronous pruning; after every step the raw s-entries (decoded by the independent codec) are compared with the set reachable from the root markers of the model's retained versions following stored child links: nothing missing, nothing unreachable, no root key of a non-retained version; f-entries == latest map when the live handle has the index enabled; at the end every key is removed, committed and older versions pruned: exactly the empty root marker may remain. non-trivial = a prune or rollback that removed >=1 stored node while >=2 versions stayed retained",
	Nontrivial: func(w *World) bool { return w.Labels["deleted_nodes_with_ge2_retained"] },
	Known:      knownCommon,
	After: func(w *World, op Op) *Violation {
		n := 0
		for k := range w.rawDump() {
			if k[0] == 's' {
				n++
			}
		}
		if (op.Kind == "prune" || op.Kind == "lvfo" || op.Kind == "dvf") && n < w.Cnt["last_s_count"] && len(w.Vers) >= 2 {
			w.Labels["deleted_nodes_with_ge2_retained"] = true
		}
		w.Cnt["last_s_count"] = n
		return nil
	},
	End: func(t *rapid.T, w *World) *Violation { return w.drainToEmpty() },
}

func TestC12(t *testing.T) { runWorldSpec(t, withLevel(specC12)) }

// ---------------------------------------------------------------- C13a lib -> independent decoder
var specC13 = &worldSpec{
	Prop: "C13",
	Profile: &Profile{MinSteps: 12, MaxSteps: 45, W: weights(map[string]int{"save": 24, "hop": 1}),
		Backends: []string{"mem", "mem", "prefix"}},
	Obs:  Observers{Fields: true, Light: true},
	Rule: "(a) history of 12-45 steps; after every step the independent decoder reads the raw store and must reproduce, per retained version, exactly the reference tree: keys, values, heights, sizes, node versions (= key version), hashes of inner nodes, child links, root markers (node | 13-byte reference | empty); node keys must sort numerically by (version, nonce). non-trivial = >=1 inner node and >=1 reference or empty root on disk",
	Nontrivial: func(w *World) bool {
		return w.Labels["inner_on_disk"] && (w.Labels["ref_root_on_disk"] || w.Labels["empty_root_on_disk"])
	},
	Known: knownCommon,
	After: func(w *World, op Op) *Violation { return w.checkKeyOrder() },
}

func TestC13a(t *testing.T) { runWorldSpec(t, withLevel(specC13)) }

// ---------------------------------------------------------------- C14 version bookkeeping
var specC14 = &worldSpec{
	Prop: "C14",
	Profile: &Profile{MinSteps: 15, MaxSteps: 55, QuietOneIn: 4, W: weights(mergeW(pruneWeights, map[string]int{"reopen": 12, "save": 26, "lvfo_invalid": 3, "reload": 6, "reload_invalid": 3, "setinit": 2, "hop": 2})),
		Backends: []string{"mem", "mem", "trace", "prefix"}},
	Obs:  Observers{Versions: true, Fresh: true, Light: true},
	Rule: "history of 15-55 steps (C04 profile + InitialVersion unset/1/2/7/63/64/127/128/8191/8192/2^31-1/2^33 configured by the option or by SetInitialVersion (also called on the live handle at arbitrary moments: ignored unless the store is empty), reopen / LoadVersion on the live handle at older versions (out-of-range targets must fail and leave the tree as it was) and re-commit, both of drawn writes and of the exact recorded writes of the existing version; export / import hops onto a new store); after every step and through a fresh handle after prune/rollback: commit numbers consecutive from 1 or InitialVersion; VersionExists(v), GetImmutable(v), GetVersioned(k,v), LoadVersion(v) on a throw-away handle for every v in {0,1} U [first-ever-1, latest+1], AvailableVersions, GetLatestVersion agree with the model range; re-commit of an existing number succeeds without effect iff the reference hashes are equal, else errors with a byte-identical store. non-trivial = >=1 prune or rollback of versions and >=1 reopen",
	Nontrivial: func(w *World) bool {
		return (w.Labels["prune"] || w.Labels["rollback_versions"]) && w.Labels["reopen"]
	},
	Known: knownCommon,
	After: func(w *World, op Op) *Violation {
		if v := w.checkLoadEach(); v != nil {
			return v
		}
		if v := w.checkReplayFirstVersionOnNewHandle(); v != nil {
			return v
		}
		return w.checkUnloadedHandle()
	},
}

func TestC14(t *testing.T) { runWorldSpec(t, withLevel(specC14)) }

// ---------------------------------------------------------------- C08 iterator contract
var specC08 = &worldSpec{
	Prop: "C08",
	Profile: &Profile{MinSteps: 15, MaxSteps: 50,
		W:        weights(map[string]int{"iter": 40, "set": 30, "remove": 14, "save": 12, "reopen": 6, "rollback": 2, "prune": 2, "prune_refuse": 0, "lvfo": 1, "dvf": 0, "setnil": 0, "hold": 3}),
		Backends: []string{"mem", "mem", "prefix"}, NoInitVer: true},
	Obs:  Observers{Light: true},
	Rule: "tree states reached by 15-50 generated steps (committed latest with index = FastIterator, historical versions and skipFast = tree walk, working state with uncommitted additions/updates/removals = UnsavedFastIterator, empty) x (start,end) drawn from {nil, empty non-nil, stored/overlay/disk-only keys, predecessors/successors, prefixes, extensions, equal, inverted, outside} x {asc,desc} x stop point; every interface (tree Iterator through Valid/Key/Value/Next/Error/Close, iavl.NewIterator walk, IterateRange, IterateRangeInclusive, Iterate with a stopping callback) must yield exactly sorted(model) ∩ [start,end) (<= end inclusive), each once, in order, then stay invalid; ImmutableTree handles handed out earlier (hold steps) are iterated again after every later step, also when their version is no longer the latest; non-trivial = a range query whose bound coincides with a stored/overlay key or splits the key set, with a result neither empty nor everything",
	Nontrivial: func(w *World) bool { return w.Cnt["iter_nontrivial"] > 0 },
	Known:      knownCommon,
}

func TestC08(t *testing.T) { runWorldSpec(t, withLevel(specC08)) }

// ---------------------------------------------------------------- C09 rollback erases the future (twin)
func specC09() *worldSpec {
	return &worldSpec{
		Prop: "C09",
		Profile: &Profile{MinSteps: 20, MaxSteps: 60,
			W:        weights(map[string]int{"lvfo": 8, "dvf": 5, "rollback": 6, "reopen": 5, "prune": 5, "setnil": 0, "save": 22, "lvfo_invalid": 2}),
			Backends: []string{"mem", "mem", "prefix"}},
		Obs:  Observers{Reads: true, Hash: true, Fast: true},
		Rule: "history of 20-60 steps with rollbacks to any retained version by LoadVersionForOverwriting or DeleteVersionsFrom + (same|fresh handle) LoadVersion, repeated / nested / after pruning, followed by further writes, commits, prunes, reopens; a twin tree on a fresh store executes only the surviving history and after every step both are compared: all reads and hashes against the model, AvailableVersions, WorkingHash, and the raw stores entry by entry (node entries byte-identical, fast entries same keys and values, label equal). Rollback() alone: all read paths (walk, fast, iterators) and WorkingHash equal the last committed version. non-trivial = the erased future contained >=1 commit that wrote nodes, a later commit re-used an erased version number, and the node cache was on (cache>0) at the rollback",
		Nontrivial: func(w *World) bool {
			return w.Labels["erased_writing_commit"] && w.Labels["reused_erased_version"] && w.Labels["rollback_with_cache"]
		},
		Known: knownCommon,
	}
}

func TestC09(t *testing.T) {
	base := specC09()
	worldSpecs["C09"] = c09Instance(base)
	rapid.Check(t, func(rt *rapid.T) { runWorldCase(rt, c09Instance(withLevel(base))) })
}

// c09Instance binds a fresh twin to one case.
func c09Instance(base *worldSpec) *worldSpec {
	s := *base
	var ts *twinState
	var prevLatest int64
	var erasedTop int64
	var lastWriting = map[int64]bool{}
	s.After = func(w *World, op Op) *Violation {
		if ts == nil {
			ts = w.twinInit()
		}
		if op.Kind == "save" {
			lastWriting[w.Latest] = w.Cnt["writing_commits"] > w.Cnt["prev_writing_commits"]
			w.Cnt["prev_writing_commits"] = w.Cnt["writing_commits"]
			if w.Latest <= erasedTop {
				w.Labels["reused_erased_version"] = true
			}
		}
		if (op.Kind == "lvfo" || op.Kind == "dvf") && op.N < prevLatest {
			for v := op.N + 1; v <= prevLatest; v++ {
				if lastWriting[v] {
					w.Labels["erased_writing_commit"] = true
				}
			}
			if prevLatest > erasedTop {
				erasedTop = prevLatest
			}
			if w.Cfg.Cache > 0 {
				w.Labels["rollback_with_cache"] = true
			}
		}
		v := ts.After(w, op, prevLatest)
		prevLatest = w.Latest
		return v
	}
	s.End = func(t *rapid.T, w *World) *Violation {
		if ts != nil && ts.twin != nil {
			ts.twin.Close()
		}
		return nil
	}
	return &s
}

// ---------------------------------------------------------------- C15 change sets
var specC15 = &worldSpec{
	Prop: "C15",
	Profile: &Profile{MinSteps: 12, MaxSteps: 45, NormalFormOneIn: 3,
		W:        weights(map[string]int{"set": 30, "remove": 18, "save": 20, "prune": 3, "prune_refuse": 0, "lvfo": 2, "dvf": 1, "reopen": 3, "setnil": 0, "rollback": 2}),
		Backends: []string{"mem"}},
	Obs:  Observers{Light: true},
	Rule: "history of 12-45 steps with repeated writes/removals of one key inside a version, set-then-remove, remove-then-set, identical rewrites, no-op and empty versions, pruning before the requested range; after every commit and at the end TraverseStateChanges is called for drawn (start,end) ranges and for every version whose predecessor is retained (or which is the first version ever) the delivered set must equal, in ascending key order and once per key, {(k,value_v(k)) : k written in v and present in v} U {delete k : k in v-1 minus v}; at the end all sets are replayed through SaveChangeSet into an empty tree (one new version each, contents equal, reference hashes whenever every version so far was written in normal form - a third of the cases are generated that way; removal of a missing key must be rejected). non-trivial = some version with a key touched >=2 times or a cancelled write, and >=2 change sets checked",
	Nontrivial: func(w *World) bool {
		return (w.Labels["cancelled_write"] || w.Labels["key_touched_twice"]) && w.Cnt["changesets_checked"] >= 2
	},
	Known: knownCommon,
	After: func(w *World, op Op) *Violation {
		if op.Kind == "set" || op.Kind == "remove" {
			n := 0
			for _, o := range w.WOps {
				if bytes.Equal(o.K, op.K) {
					n++
				}
			}
			if n >= 2 {
				w.Labels["key_touched_twice"] = true
			}
		}
		if op.Kind == "save" && w.Latest > 0 {
			return w.checkChangeSetRange(w.Latest, w.Latest)
		}
		return nil
	},
	End: func(t *rapid.T, w *World) *Violation {
		if w.Latest == 0 {
			return nil
		}
		for i := 0; i < 3; i++ {
			s := rapid.Int64Range(0, w.Latest+1).Draw(t, "csStart")
			e := rapid.Int64Range(0, w.Latest+2).Draw(t, "csEnd")
			if v := w.checkChangeSetRange(s, e); v != nil {
				return v
			}
		}
		if v := w.checkChangeSetRange(1, 1<<62); v != nil {
			return v
		}
		// arbitrary change sets (repeated keys, set-then-remove, remove-then-set, double removal, removal of a missing key)
		for i := 0; i < 2; i++ {
			n := rapid.IntRange(1, 6).Draw(t, "hcsN")
			var pairs []*iavl.KVPair
			var used [][]byte
			for j := 0; j < n; j++ {
				var k []byte
				if len(used) > 0 && rapid.IntRange(0, 2).Draw(t, "hcsRepeat") == 0 {
					k = rapid.SampledFrom(used).Draw(t, "hcsK0")
				} else {
					k = genRemoveKey(t, w.Vers[w.Latest].KV)
				}
				used = append(used, k)
				if rapid.IntRange(0, 2).Draw(t, "hcsDel") == 0 {
					pairs = append(pairs, &iavl.KVPair{Delete: true, Key: k})
				} else {
					pairs = append(pairs, &iavl.KVPair{Key: k, Value: []byte{byte('0' + j)}})
				}
			}
			if v := w.checkHostileChangeSet(pairs); v != nil {
				return v
			}
		}
		return w.checkChangeSetReplay()
	},
}

func TestC15(t *testing.T) { runWorldSpec(t, withLevel(specC15)) }

// ---------------------------------------------------------------- C10 (a) export/import fidelity
var specC10 = &worldSpec{
	Prop: "C10",
	Profile: &Profile{MinSteps: 12, MaxSteps: 45,
		W:        weights(map[string]int{"hop": 10, "save": 22, "prune": 3, "lvfo": 1, "dvf": 1, "setnil": 0, "reopen": 4}),
		Backends: []string{"mem", "mem", "prefix"}},
	Obs:  Observers{Reads: true, Hash: true, Proofs: true, Audit: true},
	Rule: "(a) history of 12-45 steps with export/import hops: any retained version (empty tree, single leaf, root inherited from an earlier version) is exported through Exporter or CompressExporter->CompressImporter; the plain stream must equal the reference post-order (key,value,version,height) sequence exactly; the imported store (read through a fresh handle as state sync does, or - in half of the hops - through the importing handle itself, which in a quarter of the hops had been written to and emptied again before Import) must have the reference hash, contents and proofs, only the imported version visible, only reachable nodes stored, and all later commits must return the reference hashes. (b) see TestC10Hostile/TestC10Big. non-trivial (a) = a hop of a version with >=3 nodes of >=2 node versions followed by >=1 writing commit",
	Nontrivial: func(w *World) bool { return w.Labels["hop_multi_version"] && w.Labels["commit_after_hop"] },
	Known:      knownCommon,
	After: func(w *World, op Op) *Violation {
		if op.Kind == "hop" {
			vs := w.Vers[op.N]
			seen := map[int64]bool{}
			n := 0
			rpost(vs.Root, func(x *RNode) { seen[x.Version] = true; n++ })
			if n >= 3 && len(seen) >= 2 {
				w.Labels["hop_multi_version"] = true
			}
			if vs.Root == nil {
				w.Labels["hop_empty"] = true
			} else if vs.Root.leaf() {
				w.Labels["hop_single_leaf"] = true
			}
			if vs.Root != nil && vs.Root.Version != op.N {
				w.Labels["hop_inherited_root"] = true
			}
			w.Cnt["hops"]++
			w.Cnt["writing_at_hop"] = w.Cnt["writing_commits"]
		}
		if op.Kind == "save" && w.Labels["hop"] && w.Cnt["writing_commits"] > w.Cnt["writing_at_hop"] {
			w.Labels["commit_after_hop"] = true
		}
		return nil
	},
}

func TestC10(t *testing.T) { runWorldSpec(t, withLevel(specC10)) }

func mergeW(a, b map[string]int) map[string]int {
	m := map[string]int{}
	for k, v := range a {
		m[k] = v
	}
	for k, v := range b {
		m[k] = v
	}
	return m
}

func withLevel(s *worldSpec) *worldSpec {
	c := *s
	p := *s.Profile
	p.Backends = backendsFor(p.Backends)
	c.Profile = &p
	return &c
}

var allSpecs = []*worldSpec{specC01, specC02, specC03, specC04, specC07, specC12, specC13, specC14, specC08, specC15, specC10}

func registerAllSpecs() {
	for _, s := range allSpecs {
		worldSpecs[s.Prop] = s
	}
	worldSpecs["C09"] = c09Instance(specC09())
}

var _ = strings.Contains

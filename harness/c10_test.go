package harness

// C10 (b): the importer is total on hostile input. (a) fidelity is the "hop" op of the World (spec C10 below).

import (
	"encoding/json"
	"fmt"
	"math"
	"os"
	"testing"
	"time"

	"github.com/cosmos/iavl"
	dbm "github.com/cosmos/iavl/db"
	"pgregory.net/rapid"
)

type HNode struct {
	Nil      bool   `json:"nil,omitempty"` // a nil *ExportNode
	Key      []byte `json:"key,omitempty"`
	KeyNil   bool   `json:"key_nil,omitempty"`
	Value    []byte `json:"value,omitempty"`
	ValueNil bool   `json:"value_nil,omitempty"`
	Version  int64  `json:"version"`
	Height   int8   `json:"height"`
}

func (h HNode) export() *iavl.ExportNode {
	if h.Nil {
		return nil
	}
	n := &iavl.ExportNode{Version: h.Version, Height: h.Height}
	// exact-capacity copies: an out-of-bounds re-slice inside the importer must fault, not read spare capacity
	if !h.KeyNil {
		n.Key = make([]byte, len(h.Key))
		copy(n.Key, h.Key)
	}
	if !h.ValueNil {
		n.Value = make([]byte, len(h.Value))
		copy(n.Value, h.Value)
	}
	return n
}

func fromExport(n *iavl.ExportNode) HNode {
	return HNode{Key: cp(n.Key), KeyNil: n.Key == nil, Value: cp(n.Value), ValueNil: n.Value == nil, Version: n.Version, Height: n.Height}
}

type HostileCase struct {
	Prop       string  `json:"property"`
	Kind       string  `json:"kind"` // hostile_import
	ImportVer  int64   `json:"import_version"`
	Compressed bool    `json:"compressed"`
	SkipFast   bool    `json:"skip_fast"`
	Commit     bool    `json:"commit"` // end with Commit (else Close)
	Nodes      []HNode `json:"nodes"`
	Mutations  []string `json:"mutations,omitempty"`
}

// validStream builds a real tree from drawn writes and exports its latest version.
func validStream(t *rapid.T, compressed bool) ([]HNode, int64) {
	tr := iavl.NewMutableTree(dbm.NewMemDB(), 0, true, iavl.NewNopLogger())
	nver := rapid.IntRange(1, 3).Draw(t, "nver")
	work := map[string][]byte{}
	for v := 1; v <= nver; v++ {
		n := rapid.IntRange(0, 7).Draw(t, "nops")
		for i := 0; i < n; i++ {
			k := genKey(t, work)
			if rapid.IntRange(0, 4).Draw(t, "rm") == 0 {
				_, _, _ = tr.Remove(k)
				delete(work, string(k))
			} else {
				val := genValue(t)
				_, _ = tr.Set(k, val)
				work[string(k)] = val
			}
		}
		if _, _, err := tr.SaveVersion(); err != nil {
			t.Fatalf("harness: %v", err)
		}
	}
	it, err := tr.GetImmutable(int64(nver))
	if err != nil {
		t.Fatalf("harness: %v", err)
	}
	if it.Size() == 0 {
		return nil, int64(nver)
	}
	nodes, err := ExportAll(it, compressed)
	if err != nil {
		t.Fatalf("harness: export: %v", err)
	}
	out := make([]HNode, len(nodes))
	for i, n := range nodes {
		out[i] = fromExport(n)
	}
	return out, int64(nver)
}

var hostileVersions = []int64{-1, math.MinInt64, 0, 1, 2, 3, 4, 1000, math.MaxInt64}

// hostileKeyPrefixes: what a compressed stream may carry in front of a key - the uvarint "shared prefix length" is read
// from untrusted bytes: single bytes, lengths beyond any key, 2^31, 2^32, 2^62, 2^63 (negative as int), the maximum,
// an overflowing and a truncated varint
var hostileKeyPrefixes = [][]byte{
	{0x7f}, {0xff}, {0x80}, {0x05}, {0x01}, {0x00},
	{0x80, 0x80, 0x80, 0x80, 0x08},                                     // 2^31
	{0x80, 0x80, 0x80, 0x80, 0x10},                                     // 2^32
	{0x80, 0x80, 0x80, 0x80, 0x80, 0x80, 0x80, 0x80, 0x40},             // 2^62
	{0x80, 0x80, 0x80, 0x80, 0x80, 0x80, 0x80, 0x80, 0x80, 0x01},       // 2^63
	{0xff, 0xff, 0xff, 0xff, 0xff, 0xff, 0xff, 0xff, 0xff, 0x01},       // 2^64-1
	{0xff, 0xff, 0xff, 0xff, 0xff, 0xff, 0xff, 0xff, 0x7f},             // 2^63-1
	{0x80, 0x80, 0x80, 0x80, 0x80, 0x80, 0x80, 0x80, 0x80, 0x80, 0x01}, // overflow
	{0x80, 0x80},                                                       // truncated
}

func genHostile(t *rapid.T) HostileCase {
	c := HostileCase{Prop: "C10", Kind: "hostile_import", Compressed: rapid.Bool().Draw(t, "compressed"), SkipFast: rapid.Bool().Draw(t, "skip"),
		Commit: rapid.IntRange(0, 3).Draw(t, "commit") > 0}
	if rapid.IntRange(0, 5).Draw(t, "random") == 0 {
		// fully random ExportNode sequence
		n := rapid.IntRange(0, 12).Draw(t, "n")
		for i := 0; i < n; i++ {
			h := HNode{Version: rapid.SampledFrom(hostileVersions).Draw(t, "ver"), Height: int8(rapid.IntRange(-2, 4).Draw(t, "h"))}
			switch rapid.IntRange(0, 5).Draw(t, "kk") {
			case 0:
				h.KeyNil = true
			case 1:
				h.Key = []byte{}
			case 2:
				h.Key = append(append([]byte{}, rapid.SampledFrom(hostileKeyPrefixes).Draw(t, "hkp")...), rapid.SliceOfN(rapid.Byte(), 0, 3).Draw(t, "hkt")...)
			default:
				h.Key = rapid.SliceOfN(rapid.Byte(), 1, 4).Draw(t, "key")
			}
			switch rapid.IntRange(0, 4).Draw(t, "vk") {
			case 0:
				h.ValueNil = true
			case 1:
				h.Value = []byte{}
			default:
				h.Value = rapid.SliceOfN(rapid.Byte(), 1, 3).Draw(t, "val")
			}
			c.Nodes = append(c.Nodes, h)
		}
		c.ImportVer = rapid.SampledFrom([]int64{0, 1, 2, 3, 5}).Draw(t, "iv")
		c.Mutations = []string{"random"}
		return c
	}
	nodes, ver := validStream(t, c.Compressed)
	c.ImportVer = ver
	nm := rapid.IntRange(0, 3).Draw(t, "nmut")
	for m := 0; m < nm && len(nodes) > 0; m++ {
		i := rapid.IntRange(0, len(nodes)-1).Draw(t, "mi")
		switch rapid.IntRange(0, 12).Draw(t, "mut") {
		case 0:
			j := rapid.IntRange(0, len(nodes)-1).Draw(t, "mj")
			nodes[i], nodes[j] = nodes[j], nodes[i]
			c.Mutations = append(c.Mutations, "swap")
		case 1:
			nodes = append(nodes[:i:i], nodes[i+1:]...)
			c.Mutations = append(c.Mutations, "drop")
		case 2:
			nodes = append(nodes[:i+1:i+1], nodes[i:]...)
			c.Mutations = append(c.Mutations, "duplicate")
		case 3:
			nodes[i].Height += int8(rapid.SampledFrom([]int{-1, 1, 2, 100}).Draw(t, "dh"))
			c.Mutations = append(c.Mutations, "height")
		case 4:
			nodes[i].Version = rapid.SampledFrom(hostileVersions).Draw(t, "mv")
			c.Mutations = append(c.Mutations, "version")
		case 5:
			nodes[i].KeyNil, nodes[i].Key = true, nil
			c.Mutations = append(c.Mutations, "nilkey")
		case 6:
			nodes[i].KeyNil, nodes[i].Key = false, []byte{}
			c.Mutations = append(c.Mutations, "emptykey")
		case 7:
			nodes[i].ValueNil, nodes[i].Value = true, nil
			c.Mutations = append(c.Mutations, "nilvalue")
		case 8:
			nodes[i].ValueNil, nodes[i].Value = false, []byte("injected")
			c.Mutations = append(c.Mutations, "value_on_any")
		case 9:
			nodes = nodes[:i]
			c.Mutations = append(c.Mutations, "truncate")
		case 10:
			nodes[i] = HNode{Nil: true}
			c.Mutations = append(c.Mutations, "nilnode")
		case 11:
			// hostile delta prefix (compressed) / arbitrary key bytes (plain)
			nodes[i].Key = append(append([]byte{}, rapid.SampledFrom(hostileKeyPrefixes).Draw(t, "pfx")...), nodes[i].Key...)
			c.Mutations = append(c.Mutations, "keyprefix")
		case 12:
			c.ImportVer = rapid.SampledFrom([]int64{0, 1, ver - 1, ver + 1}).Draw(t, "miv")
			c.Mutations = append(c.Mutations, "importversion")
		}
	}
	c.Nodes = nodes
	return c
}

const inconclusiveMark = "VERIF-INCONCLUSIVE"

// runHostile feeds the stream; returns a violation, or nil. accepted = #nodes accepted by Add.
// hostileWatchdog: a hostile stream has at most a few dozen nodes and is processed in microseconds
var hostileWatchdog = 60 * time.Second

func runHostile(c HostileCase) (v *Violation, accepted int, committed bool, hung bool) {
	done := make(chan struct{})
	db := dbm.NewMemDB()
	go func() {
		defer close(done)
		defer func() {
			if r := recover(); r != nil {
				v = &Violation{Prop: "C10", Obs: "import.panic", Msg: fmt.Sprintf("importer panicked: %v", r)}
			}
		}()
		tr := iavl.NewMutableTree(db, 0, c.SkipFast, iavl.NewNopLogger())
		imp, err := tr.Import(c.ImportVer)
		if err != nil {
			return // refused up front: fine
		}
		var nimp iavl.NodeImporter = imp
		if c.Compressed {
			nimp = iavl.NewCompressImporter(imp)
		}
		failed := false
		for _, n := range c.Nodes {
			if err := nimp.Add(n.export()); err != nil {
				failed = true
				break
			}
			accepted++
		}
		if c.Commit && !failed {
			if err := imp.Commit(); err == nil {
				committed = true
			}
		}
		imp.Close()
	}()
	select {
	case <-done:
	case <-time.After(hostileWatchdog):
		return nil, accepted, false, true
	}
	if v != nil {
		return
	}
	// what is visible now, through a fresh handle
	func() {
		defer func() {
			if r := recover(); r != nil {
				v = &Violation{Prop: "C10", Obs: "import.after_panic", Msg: fmt.Sprintf("using the store after the import panicked: %v", r)}
			}
		}()
		tr := iavl.NewMutableTree(db, 0, true, iavl.NewNopLogger())
		lv, err := tr.Load()
		if !committed {
			if err != nil || lv != 0 {
				v = &Violation{Prop: "C10", Obs: "import.visible", Msg: fmt.Sprintf("import was not committed, but a fresh tree Load()=%d,%v (want 0,nil)", lv, err)}
				return
			}
			if av := tr.AvailableVersions(); len(av) != 0 {
				v = &Violation{Prop: "C10", Obs: "import.visible", Msg: fmt.Sprintf("import was not committed, but AvailableVersions=%v", av)}
				return
			}
			if tr.VersionExists(c.ImportVer) {
				v = &Violation{Prop: "C10", Obs: "import.visible", Msg: fmt.Sprintf("import was not committed, but VersionExists(%d)", c.ImportVer)}
			}
			return
		}
		// committed (possibly a hostile but structurally acceptable stream): it must be usable without panics
		if err != nil {
			v = &Violation{Prop: "C10", Obs: "import.committed_unloadable", Msg: fmt.Sprintf("Commit succeeded but a fresh tree cannot Load(): %v", err)}
			return
		}
		_, _ = tr.Iterate(func(k, v []byte) bool { return false })
		_ = tr.Hash()
	}()
	return
}

func TestC10Hostile(t *testing.T) {
	rapid.Check(t, func(rt *rapid.T) {
		c := genHostile(rt)
		v, accepted, committed, hung := runHostile(c)
		if hung {
			// load or a hang? the same stream once more, with three times the patience: a second timeout is a hang
			// ("the importer never panics or hangs"), a completed run was machine load
			hostileWatchdog = 180 * time.Second
			v, accepted, committed, hung = runHostile(c)
			hostileWatchdog = 60 * time.Second
			if hung {
				reportViolation(rt, "C10", c, &Violation{Prop: "C10", Obs: "import.hang", Msg: "Add/Commit/Close on this stream did not return within 60 s and, repeated, within 180 s"})
			}
			Count("C10", "hostile_streams_slower_than_60s_once", 1)
		}
		if v != nil {
			reportViolation(rt, "C10", c, v)
		}
		inner := 0
		for i, n := range c.Nodes {
			if i < accepted && n.Height > 0 {
				inner++
			}
		}
		labels := map[string]bool{"committed": committed, "compressed": c.Compressed, "hostile": len(c.Mutations) > 0}
		for _, m := range c.Mutations {
			labels["mut_"+m] = true
		}
		RecordCase("C10", c, len(c.Mutations) > 0 && inner >= 1, labels)
		Count("C10", "hostile_streams", 1)
	})
}

// BigCase: a stream that already flushed a 10 000-node batch; committed, closed without Commit, or failing late.
type BigCase struct {
	Prop     string `json:"property"`
	Kind     string `json:"kind"` // big
	Leaves   int    `json:"leaves"`
	Mode     string `json:"mode"` // commit | close | fail_late
	Compress bool   `json:"compress"`
	Skip     bool   `json:"skip_fast"`
	StopAt   int    `json:"stop_at"`
}

func runBig(c BigCase) (v *Violation) {
	defer func() {
		if r := recover(); r != nil {
			v = &Violation{Prop: "C10", Obs: "import.panic", Msg: fmt.Sprintf("panic: %v", r)}
		}
	}()
	n := c.Leaves
	tr := iavl.NewMutableTree(dbm.NewMemDB(), 0, true, iavl.NewNopLogger())
	var wroot *RNode
	for i := 0; i < n; i++ {
		k := []byte(fmt.Sprintf("key-%06d", (i*7919)%1000003))
		_, _ = tr.Set(k, []byte("v"))
		wroot, _ = rset(wroot, k, []byte("v"))
	}
	h, _, err := tr.SaveVersion()
	if err != nil {
		return &Violation{Prop: "C10", Obs: "harness", Msg: err.Error()}
	}
	want := rhash(wroot, 1, true)
	if string(h) != string(want) {
		return &Violation{Prop: "C10", Obs: "big.hash", Msg: "hash of the big tree differs from the reference"}
	}
	it, _ := tr.GetImmutable(1)
	nodes, err := ExportAll(it, c.Compress)
	if err != nil || len(nodes) != 2*n-1 {
		return &Violation{Prop: "C10", Obs: "big.export", Msg: fmt.Sprintf("export yields %d nodes, err %v, want %d", len(nodes), err, 2*n-1)}
	}
	db := dbm.NewMemDB()
	tr2 := iavl.NewMutableTree(db, 0, c.Skip, iavl.NewNopLogger())
	imp, err := tr2.Import(1)
	if err != nil {
		return &Violation{Prop: "C10", Obs: "harness", Msg: err.Error()}
	}
	var nimp iavl.NodeImporter = imp
	if c.Compress {
		nimp = iavl.NewCompressImporter(imp)
	}
	stopAt := c.StopAt
	if c.Mode == "commit" || stopAt > len(nodes) {
		stopAt = len(nodes)
	}
	var addErr error
	for i := 0; i < stopAt; i++ {
		x := *nodes[i]
		if addErr = nimp.Add(&x); addErr != nil {
			break
		}
	}
	switch c.Mode {
	case "commit":
		if addErr != nil {
			return &Violation{Prop: "C10", Obs: "big.add", Msg: addErr.Error()}
		}
		if err := imp.Commit(); err != nil {
			return &Violation{Prop: "C10", Obs: "big.commit", Msg: err.Error()}
		}
		fr := iavl.NewMutableTree(db, 0, true, iavl.NewNopLogger())
		if lv, err := fr.Load(); err != nil || lv != 1 || string(fr.Hash()) != string(want) {
			return &Violation{Prop: "C10", Obs: "big.imported", Msg: fmt.Sprintf("after import Load=%d,%v hash equal=%v", lv, err, string(fr.Hash()) == string(want))}
		}
		cnt := 0
		_, _ = fr.Iterate(func(k, v []byte) bool { cnt++; return false })
		if cnt != n {
			return &Violation{Prop: "C10", Obs: "big.imported", Msg: fmt.Sprintf("imported tree iterates %d keys want %d", cnt, n)}
		}
	default:
		if c.Mode == "fail_late" {
			bad := &iavl.ExportNode{Key: []byte("zzz"), Value: nil, Version: 5, Height: 0}
			_ = nimp.Add(bad)
			_ = imp.Commit() // the stack is not a single root: must fail
		}
		imp.Close()
		fr := iavl.NewMutableTree(db, 0, true, iavl.NewNopLogger())
		lv, err := fr.Load()
		if err != nil || lv != 0 || len(fr.AvailableVersions()) != 0 {
			return &Violation{Prop: "C10", Obs: "import.visible_after_flush", Msg: fmt.Sprintf("import of %d nodes (a 10000-node batch was flushed) was not committed, but a fresh tree Load()=%d,%v AvailableVersions=%v", stopAt, lv, err, fr.AvailableVersions())}
		}
	}
	return nil
}

func TestC10Big(t *testing.T) {
	rapid.Check(t, func(rt *rapid.T) {
		c := BigCase{Prop: "C10", Kind: "big", Leaves: rapid.IntRange(5002, 5400).Draw(rt, "leaves"),
			Mode: rapid.SampledFrom([]string{"commit", "commit", "close", "fail_late"}).Draw(rt, "mode"), Compress: rapid.Bool().Draw(rt, "compress"), Skip: rapid.Bool().Draw(rt, "skip")}
		if Open("F18") && c.Mode != "commit" {
			// steer around F18 (aborted multi-batch import leaves node entries that fake a version)
			Count("C10", "excluded_by_F18", 1)
			c.Mode = "commit"
		}
		c.StopAt = rapid.IntRange(10001, 2*c.Leaves-2).Draw(rt, "stopAt")
		if v := runBig(c); v != nil {
			if v.Obs == "import.visible_after_flush" && Open("F18") {
				KnownHit("C10", "F18")
				return
			}
			reportViolation(rt, "C10", c, v)
		}
		RecordCase("C10", c, true, map[string]bool{"big_" + c.Mode: true})
		Count("C10", "big_streams", 1)
	})
}

func init() {
	customReplayers["C10"] = func(raw json.RawMessage) (*Violation, bool) {
		var head struct {
			Kind string `json:"kind"`
		}
		_ = json.Unmarshal(raw, &head)
		if head.Kind == "big" {
			var c BigCase
			if err := json.Unmarshal(raw, &c); err != nil {
				return &Violation{Prop: "C10", Obs: "harness", Msg: err.Error()}, true
			}
			return runBig(c), true
		}
		if head.Kind != "hostile_import" {
			return nil, false
		}
		var c HostileCase
		if err := json.Unmarshal(raw, &c); err != nil {
			return &Violation{Prop: "C10", Obs: "harness", Msg: err.Error()}, true
		}
		v, _, _, hung := runHostile(c)
		if hung {
			return &Violation{Prop: "C10", Obs: "import.hang", Msg: "importer did not finish within 60 s"}, true
		}
		return v, true
	}
	_ = os.Getenv
}

// FuzzImporter (thorough tier): coverage-guided search over byte strings decoded into ExportNode streams.
func FuzzImporter(f *testing.F) {
	f.Add([]byte{0, 1, 1, 0, 1, 'a', 1, 'x', 1, 0, 1, 'b', 1, 'y', 1, 1, 0, 0, 1})
	f.Add([]byte{1, 2, 1, 0, 2, 0, 'a', 1, 'x', 1, 0, 2, 1, 'b', 1, 'y', 0, 1, 0, 0, 1})
	f.Add([]byte{0, 1, 0, 0xff, 1, 'a', 0, 0x80})
	f.Add([]byte{1, 1, 0, 1, 11, 0xff, 0xff, 0xff, 0xff, 0xff, 0xff, 0xff, 0xff, 0xff, 0x01, 'a', 1, 'x'}) // compressed, hostile shared-prefix length
	f.Add([]byte{1, 1, 0, 1, 2, 0, 'a', 1, 'x', 0, 1, 10, 0x80, 0x80, 0x80, 0x80, 0x80, 0x80, 0x80, 0x80, 0x80, 0x01, 1, 'y'})
	f.Fuzz(func(t *testing.T, data []byte) {
		if len(data) < 3 || len(data) > 400 {
			return
		}
		c := HostileCase{Prop: "C10", Kind: "hostile_import", Compressed: data[0]&1 == 1, SkipFast: data[0]&2 == 2, Commit: data[0]&4 == 0,
			ImportVer: int64(data[1] % 6), Mutations: []string{"fuzz"}}
		p := data[2:]
		next := func() byte {
			if len(p) == 0 {
				return 0
			}
			b := p[0]
			p = p[1:]
			return b
		}
		take := func(n int) []byte {
			if n > len(p) {
				n = len(p)
			}
			b := append([]byte{}, p[:n]...)
			p = p[n:]
			return b
		}
		for len(p) > 0 && len(c.Nodes) < 24 {
			h := HNode{Height: int8(next()), Version: int64(int8(next()))}
			switch kl := next(); {
			case kl == 0xff:
				h.KeyNil = true
			case kl == 0xfe:
				h.Nil = true
			default:
				h.Key = take(int(kl % 12)) // up to 11 bytes: room for a 10-byte uvarint in front of a compressed key
			}
			switch vl := next(); {
			case vl == 0xff:
				h.ValueNil = true
			default:
				h.Value = take(int(vl % 4))
			}
			c.Nodes = append(c.Nodes, h)
		}
		v, _, _, hung := runHostile(c)
		if hung {
			t.Skip("watchdog")
		}
		if v != nil {
			path := writeReplay("C10", c, v)
			t.Fatalf("VERIF-VIOLATION property=C10 replay=%s observer=%s :: %s", path, v.Obs, v.Msg)
		}
	})
}

package harness

// C16: databases in the legacy (pre-1.0) format stay fully usable. Oracle source: the co-process /verif/legacygen built
// from iavl v0.20.0 + cometbft-db v0.7.0.

import (
	"bufio"
	"bytes"
	"encoding/hex"
	"encoding/json"
	"fmt"
	"os"
	"os/exec"
	"path/filepath"
	"sort"
	"sync"
	"testing"

	"github.com/cosmos/iavl"
	dbm "github.com/cosmos/iavl/db"
	"pgregory.net/rapid"
)

type LOp struct {
	Kind string `json:"op"` // set | remove | save | delete | delete_range
	K    []byte `json:"k,omitempty"`
	V    []byte `json:"v,omitempty"`
	N    int64  `json:"n,omitempty"`
	M    int64  `json:"m,omitempty"`
}

type legacyReq struct {
	Ops      []LOp `json:"ops"`
	SkipFast bool  `json:"skip_fast"`
	Cache    int   `json:"cache"`
}

type legacyResp struct {
	Err    string           `json:"err,omitempty"`
	KV     [][2]string      `json:"kv"`
	Hashes map[int64]string `json:"hashes"`
	Avail  []int            `json:"avail"`
	Latest int64            `json:"latest"`
}

type legacyProc struct {
	mu  sync.Mutex
	cmd *exec.Cmd
	in  *bufio.Writer
	out *bufio.Reader
}

var (
	legacyOnce sync.Once
	legacy     *legacyProc
	legacyErr  error
)

func legacyBinary() string {
	if p := os.Getenv("VERIF_LEGACYGEN"); p != "" {
		return p
	}
	return filepath.Join(verifRoot(), "build", "legacygen")
}

func legacyRun(req legacyReq) (*legacyResp, error) {
	legacyOnce.Do(func() {
		cmd := exec.Command(legacyBinary())
		stdin, err := cmd.StdinPipe()
		if err != nil {
			legacyErr = err
			return
		}
		stdout, err := cmd.StdoutPipe()
		if err != nil {
			legacyErr = err
			return
		}
		cmd.Stderr = os.Stderr
		if err := cmd.Start(); err != nil {
			legacyErr = fmt.Errorf("starting %s: %w (run `python3 verif.py setup`)", legacyBinary(), err)
			return
		}
		legacy = &legacyProc{cmd: cmd, in: bufio.NewWriter(stdin), out: bufio.NewReaderSize(stdout, 1<<20)}
	})
	if legacyErr != nil {
		return nil, legacyErr
	}
	legacy.mu.Lock()
	defer legacy.mu.Unlock()
	b, _ := json.Marshal(req)
	if _, err := legacy.in.Write(append(b, '\n')); err != nil {
		return nil, err
	}
	if err := legacy.in.Flush(); err != nil {
		return nil, err
	}
	line, err := legacy.out.ReadBytes('\n')
	if err != nil {
		return nil, fmt.Errorf("legacygen: %w", err)
	}
	var resp legacyResp
	if err := json.Unmarshal(line, &resp); err != nil {
		return nil, err
	}
	if resp.Err != "" {
		return nil, fmt.Errorf("legacygen: %s", resp.Err)
	}
	return &resp, nil
}

type C16Case struct {
	Prop       string `json:"property"`
	Kind       string `json:"kind"` // legacy
	LegacyOps  []LOp  `json:"legacy_ops"`
	LegacySkip bool   `json:"legacy_skip_fast"`
	Cfg        Cfg    `json:"cfg"`
	Ops        []Op   `json:"ops"`
}

var legacyProfile = &Profile{W: weights(map[string]int{"set": 26, "remove": 10, "save": 24, "prune": 12, "prune_refuse": 1, "reopen": 8, "lvfo": 7, "dvf": 3, "rollback": 2, "setnil": 0, "reload": 4, "hold": 2, "replay": 5, "pin": 3, "unpin": 3}), NoInitVer: true}

// runC16 builds the legacy database through the co-process, checks it against the reference model, opens it with the
// current library and runs the continuation.
func runC16(c C16Case, gen func(w *World) (Op, bool)) (v *Violation, w *World, ops []Op, err error) {
	resp, err := legacyRun(legacyReq{Ops: c.LegacyOps, SkipFast: c.LegacySkip})
	if err != nil {
		return nil, nil, nil, err
	}
	obs := Observers{Reads: true, Hash: true, Versions: true, Fresh: true, Fast: true, Hybrid: true}
	w = &World{Prop: "C16", Backend: "mem", Cfg: c.Cfg, Obs: obs, Vers: map[int64]*VerState{}, WKV: map[string][]byte{},
		WTouched: map[string]bool{}, Labels: map[string]bool{}, Excl: map[string]int{}, Cnt: map[string]int{}}
	// reference model of the legacy history
	var ver int64
	for _, op := range c.LegacyOps {
		switch op.Kind {
		case "set":
			val := op.V
			if val == nil {
				val = []byte{}
			}
			w.WRoot, _ = rset(w.WRoot, op.K, val)
			w.WKV[string(op.K)] = val
		case "remove":
			if _, ok := w.WKV[string(op.K)]; ok {
				w.WRoot, _, _, _ = rremove(w.WRoot, op.K)
				delete(w.WKV, string(op.K))
			}
		case "save":
			ver++
			rhash(w.WRoot, ver, true)
			w.Vers[ver] = &VerState{Root: w.WRoot, KV: copyKV(w.WKV), Touched: map[string]bool{}}
		case "delete":
			delete(w.Vers, op.N)
			w.Labels["legacy_deletion"] = true
		case "delete_range":
			for x := op.N; x < op.M; x++ {
				delete(w.Vers, x)
			}
			w.Labels["legacy_deletion"] = true
		}
	}
	// the legacy library's own report is the oracle; the reference model must agree with it (anchors the model)
	want := w.Retained()
	var got []int64
	for _, a := range resp.Avail {
		got = append(got, int64(a))
	}
	if fmt.Sprint(want) != fmt.Sprint(got) {
		return nil, nil, nil, fmt.Errorf("harness: legacy library reports versions %v, model %v", got, want)
	}
	for _, x := range want {
		if h := hex.EncodeToString(rhash(w.Vers[x].Root, 0, false)); h != resp.Hashes[x] {
			return nil, nil, nil, fmt.Errorf("harness: reference hash of legacy version %d = %s, legacy library reported %s", x, h, resp.Hashes[x])
		}
	}
	if len(want) == 0 {
		return nil, w, nil, nil
	}
	db := dbm.NewMemDB()
	orphanRecords := 0
	for _, kv := range resp.KV {
		k, _ := hex.DecodeString(kv[0])
		val, _ := hex.DecodeString(kv[1])
		if val == nil {
			val = []byte{}
		}
		if len(k) > 0 && k[0] == 'o' {
			orphanRecords++
		}
		_ = db.Set(k, val)
	}
	if orphanRecords > 0 {
		w.Labels["legacy_orphan_records"] = true
	}
	w.Parent, w.DB = db, db
	w.First, w.Latest, w.Cur, w.Base = want[0], ver, ver, want[0]
	w.LegacyLatest, w.LegacyOrig = ver, ver
	w.setWorkingFrom(ver)
	if !c.LegacySkip {
		w.EverFast, w.IndexLabel = true, ver
	}
	w.rememberInitialCfg()
	w.newTree()
	var lv int64
	func() {
		defer func() {
			if r := recover(); r != nil {
				err = fmt.Errorf("panic: %v", r)
			}
		}()
		lv, err = w.Tree.Load()
	}()
	if err != nil || lv != ver {
		return w.viol("legacy.load", "Load() of the legacy database = %d,%v want %d", lv, err, ver), w, nil, nil
	}
	err = nil
	if !c.Cfg.SkipFast {
		w.EverFast, w.IndexLabel = true, ver
	}
	if x := w.Observe(); x != nil {
		x.Obs = "legacy." + x.Obs
		return x, w, nil, nil
	}
	step := func(op Op) *Violation {
		ops = append(ops, op)
		if x := w.Apply(op); x != nil {
			return x
		}
		w.trackIndex(op)
		return w.Observe()
	}
	if gen != nil {
		for {
			op, ok := gen(w)
			if !ok {
				break
			}
			if x := step(op); x != nil {
				return x, w, ops, nil
			}
		}
	} else {
		for _, op := range c.Ops {
			if x := step(op); x != nil {
				return x, w, ops, nil
			}
		}
	}
	return nil, w, ops, nil
}

func genLegacyOps(t *rapid.T) []LOp {
	var ops []LOp
	work := map[string][]byte{}
	avail := []int64{}
	nver := rapid.IntRange(1, 7).Draw(t, "lver")
	var ver int64
	for v := 1; v <= nver; v++ {
		n := rapid.IntRange(0, 6).Draw(t, "lops")
		for i := 0; i < n; i++ {
			if len(work) > 0 && rapid.IntRange(0, 3).Draw(t, "lrm") == 0 {
				k := genRemoveKey(t, work)
				delete(work, string(k))
				ops = append(ops, LOp{Kind: "remove", K: k})
			} else {
				k, val := genKey(t, work), genValue(t)
				if len(k) == 0 {
					k = []byte("a") // the legacy library's fast index rejects the empty key
				}
				work[string(k)] = val
				ops = append(ops, LOp{Kind: "set", K: k, V: val})
			}
		}
		ops = append(ops, LOp{Kind: "save"})
		ver++
		avail = append(avail, ver)
		// legacy-side deletions (never the latest version) leave orphan records behind
		if len(avail) >= 2 && rapid.IntRange(0, 2).Draw(t, "ldel") == 0 {
			i := rapid.IntRange(0, len(avail)-2).Draw(t, "ldi")
			ops = append(ops, LOp{Kind: "delete", N: avail[i]})
			avail = append(avail[:i:i], avail[i+1:]...)
		}
	}
	return ops
}

func TestC16(t *testing.T) {
	rapid.Check(t, func(rt *rapid.T) {
		c := C16Case{Prop: "C16", Kind: "legacy", LegacyOps: genLegacyOps(rt), LegacySkip: rapid.Bool().Draw(rt, "lskip"), Cfg: genCfg(rt, false)}
		steps := rapid.IntRange(4, 24).Draw(rt, "steps")
		i := 0
		v, w, ops, err := runC16(c, func(w *World) (Op, bool) {
			if i >= steps {
				return Op{}, false
			}
			i++
			return GenOp(rt, w, legacyProfile), true
		})
		c.Ops = ops
		if err != nil {
			rt.Fatalf("%s C16 oracle co-process problem: %v", inconclusiveMark, err)
		}
		if v != nil {
			if id := knownCommon(w, v); id != "" && Open(id) {
				KnownHit("C16", id)
				return
			}
			reportViolation(rt, "C16", c, v)
		}
		if w == nil {
			return
		}
		for id, n := range w.Excl {
			Count("C16", "excluded_by_"+id, n)
		}
		nontrivial := w.Labels["legacy_deletion"] && (w.Labels["prune_across_legacy_boundary"] || w.Labels["rollback_into_legacy"])
		w.Labels["legacy_fast_index"] = !c.LegacySkip
		for cname, n := range w.Cnt {
			Count("C16", cname, n)
		}
		RecordCase("C16", c, nontrivial, w.Labels)
	})
}

// TestC16Testdata: the two checked-in legacy databases must load with every version readable and stay usable.
func TestC16Testdata(t *testing.T) {
	repo := os.Getenv("VERIF_REPO")
	if repo == "" {
		repo = "/repo"
	}
	for _, name := range []string{"0.13-orphans.db", "0.13-orphans-v6.db"} {
		src := filepath.Join(repo, "testdata", name)
		if _, err := os.Stat(src); err != nil {
			t.Logf("skipping %s: %v", name, err)
			continue
		}
		base := os.Getenv("VERIF_TMP")
		if base == "" {
			base = "/dev/shm"
			if _, err := os.Stat(base); err != nil {
				base = os.TempDir()
			}
		}
		dir, err := os.MkdirTemp(base, "verif-c16-")
		if err != nil {
			t.Fatal(err)
		}
		defer os.RemoveAll(dir)
		if out, err := exec.Command("cp", "-r", src, filepath.Join(dir, "test.db")).CombinedOutput(); err != nil {
			t.Fatalf("copy: %v %s", err, out)
		}
		ldb, err := dbm.NewGoLevelDB("test", dir)
		if err != nil {
			t.Fatalf("%s %v", inconclusiveMark, err)
		}
		tr := iavl.NewMutableTree(ldb, 0, true, iavl.NewNopLogger())
		lv, err := tr.Load()
		if err != nil {
			t.Fatalf("VERIF-VIOLATION property=C16 replay=%s observer=testdata.load :: Load of %s: %v", src, name, err)
		}
		av := tr.AvailableVersions()
		if len(av) == 0 || int64(av[len(av)-1]) != lv {
			t.Fatalf("VERIF-VIOLATION property=C16 replay=%s observer=testdata.versions :: %s: AvailableVersions=%v latest=%d", src, name, av, lv)
		}
		prevSize := int64(-1)
		for _, a := range av {
			it, err := tr.GetImmutable(int64(a))
			if err != nil {
				t.Fatalf("VERIF-VIOLATION property=C16 replay=%s observer=testdata.getimmutable :: %s version %d: %v", src, name, a, err)
			}
			n := int64(0)
			var prev []byte
			_, err = it.Iterate(func(k, v []byte) bool {
				if prev != nil && bytes.Compare(prev, k) >= 0 {
					n = -1 << 40
				}
				prev = cp(k)
				n++
				return false
			})
			if err != nil || n != it.Size() {
				t.Fatalf("VERIF-VIOLATION property=C16 replay=%s observer=testdata.contents :: %s version %d iterates %d of %d keys (%v)", src, name, a, n, it.Size(), err)
			}
			_ = prevSize
			prevSize = it.Size()
		}
		// a commit on top and pruning across the boundary keep the latest legacy contents
		latest, _ := tr.GetImmutable(lv)
		var before []KV
		_, _ = latest.Iterate(func(k, v []byte) bool { before = append(before, KV{cp(k), cp(v)}); return false })
		if _, err := tr.Set([]byte("verif-new-key"), []byte("x")); err != nil {
			t.Fatal(err)
		}
		if _, nv, err := tr.SaveVersion(); err != nil || nv != lv+1 {
			t.Fatalf("VERIF-VIOLATION property=C16 replay=%s observer=testdata.commit :: %s: SaveVersion on top = %d,%v", src, name, nv, err)
		}
		if err := tr.DeleteVersionsTo(lv); err != nil {
			t.Fatalf("VERIF-VIOLATION property=C16 replay=%s observer=testdata.prune :: %s: DeleteVersionsTo(%d): %v", src, name, lv, err)
		}
		tr2 := iavl.NewMutableTree(ldb, 0, true, iavl.NewNopLogger())
		if l2, err := tr2.Load(); err != nil || l2 != lv+1 {
			t.Fatalf("VERIF-VIOLATION property=C16 replay=%s observer=testdata.reload :: %s: reload = %d,%v", src, name, l2, err)
		}
		var after []KV
		_, err = tr2.Iterate(func(k, v []byte) bool {
			if string(k) != "verif-new-key" {
				after = append(after, KV{cp(k), cp(v)})
			}
			return false
		})
		if err != nil || !eqKVs(before, after) {
			t.Fatalf("VERIF-VIOLATION property=C16 replay=%s observer=testdata.after_prune :: %s: contents after pruning across the boundary differ (%d vs %d keys, %v)", src, name, len(after), len(before), err)
		}
		_ = ldb.Close()
		RecordCase("C16", map[string]string{"testdata": name}, true, map[string]bool{"testdata_db": true})
	}
	_ = sort.Ints
}

func init() {
	customReplayers["C16"] = func(raw json.RawMessage) (*Violation, bool) {
		var c C16Case
		if err := json.Unmarshal(raw, &c); err != nil {
			return &Violation{Prop: "C16", Obs: "harness", Msg: err.Error()}, true
		}
		v, _, _, err := runC16(c, nil)
		if err != nil {
			return &Violation{Prop: "C16", Obs: "harness", Msg: err.Error()}, true
		}
		return v, true
	}
}

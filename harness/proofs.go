package harness

// C03 observer: completeness and binding of ICS-23 proofs against the REFERENCE root of each version.

import (
	"bytes"
	"sort"

	"github.com/cosmos/iavl"
	ics23 "github.com/cosmos/ics23/go"
)

type proofSource interface {
	GetProof(key []byte) (*ics23.CommitmentProof, error)
	GetMembershipProof(key []byte) (*ics23.CommitmentProof, error)
	GetNonMembershipProof(key []byte) (*ics23.CommitmentProof, error)
}

// otherRoots: reference roots of other retained versions, with their contents (for binding checks)
type otherRoot struct {
	ver  int64
	root []byte
	kv   map[string][]byte
}

func (w *World) otherRoots(except int64) []otherRoot {
	var out []otherRoot
	vs := make([]int64, 0, len(w.Vers))
	for v := range w.Vers {
		vs = append(vs, v)
	}
	sort.Slice(vs, func(i, j int) bool { return vs[i] < vs[j] })
	for _, v := range vs {
		if v == except || w.Vers[v].Root == nil {
			continue
		}
		out = append(out, otherRoot{v, rhash(w.Vers[v].Root, 0, false), w.Vers[v].KV})
	}
	return out
}

func (w *World) checkProofs(tr *iavl.MutableTree, it *iavl.ImmutableTree, v int64, vs *VerState, via string) *Violation {
	if vs.Root == nil {
		return nil // property: every NON-EMPTY retained version
	}
	root := rhash(vs.Root, 0, false)
	return w.checkProofsOn(it, func(k []byte) (*ics23.CommitmentProof, error) { return tr.GetVersionedProof(k, v) }, v, vs.KV, vs.Root, root, via)
}

// checkWorkingProofs: the working tree is a proof source too (quantifier of C03).
func (w *World) checkWorkingProofs() *Violation {
	if w.WRoot == nil {
		return nil
	}
	if w.WorkingVersion() != w.Cur+1 && hasUnstamped(w.WRoot) {
		if Open("F1") {
			w.Excl["F1"]++
			return nil
		}
		w.F1Exposed = true
	}
	root := rhash(w.WRoot, w.WorkingVersion(), false)
	return w.checkProofsOn(w.Tree, nil, -1, w.WKV, w.WRoot, root, "working.")
}

func (w *World) checkProofsOn(src proofSource, versioned func([]byte) (*ics23.CommitmentProof, error), v int64, kv map[string][]byte, rroot *RNode, root []byte, via string) *Violation {
	obs := func(s string) string { return via + "proof." + s }
	present, absent := probeKeys(kv)
	others := w.otherRoots(v)
	spec := ics23.IavlSpec
	for _, ks := range present {
		k := []byte(ks)
		val := kv[ks]
		p, err := src.GetMembershipProof(k)
		if err != nil || p == nil || p.GetExist() == nil {
			return w.viol(obs("membership.err"), "version %d GetMembershipProof(%q): %v", v, k, err)
		}
		if _, err := src.GetNonMembershipProof(k); err == nil {
			return w.viol(obs("wrongkind"), "version %d GetNonMembershipProof(present %q) returned a proof", v, k)
		}
		p2, err := src.GetProof(k)
		if err != nil || p2 == nil || p2.GetExist() == nil {
			return w.viol(obs("getproof.kind"), "version %d GetProof(present %q) is not a membership proof: %v", v, k, err)
		}
		if !bytes.Equal(p.GetExist().Key, k) || !bytes.Equal(p.GetExist().Value, val) {
			return w.viol(obs("membership.content"), "version %d membership proof of %q carries key %q value %q want value %q", v, k, p.GetExist().Key, p.GetExist().Value, val)
		}
		if len(k) == 0 {
			w.Cnt["proof_empty_key_skipped"]++
			continue // ics23's LeafOp.Apply rejects empty keys ("leaf op needs key") as well
		}
		if len(val) == 0 {
			// ics23's LeafOp.Apply rejects empty values ("leaf op needs value"): not verifiable by
			// construction of the trusted verifier, whatever the tree does.
			w.Cnt["proof_empty_value_skipped"]++
			continue
		}
		for _, pp := range []*ics23.CommitmentProof{p, p2} {
			if !ics23.VerifyMembership(spec, root, pp, k, val) {
				return w.viol(obs("membership.verify"), "version %d membership proof of %q=%q does not verify against the reference root %x", v, k, val, root)
			}
		}
		if versioned != nil {
			p3, err := versioned(k)
			if err != nil || p3.GetExist() == nil || !ics23.VerifyMembership(spec, root, p3, k, val) {
				return w.viol(obs("versioned.verify"), "GetVersionedProof(%q,%d) err=%v or does not verify", k, v, err)
			}
		}
		// the tree's own helpers (committed versions only: on the working tree they read through the embedded
		// ImmutableTree, which the property does not speak about): "true iff proof is an ExistenceProof for the key"
		if it, ok := src.(*iavl.ImmutableTree); ok && via != "working." {
			if okm, err := it.VerifyMembership(p, k); err != nil || !okm {
				return w.viol(obs("helper.verifymembership"), "version %d VerifyMembership(own proof of %q)=%v,%v", v, k, okm, err)
			}
			if okp, err := it.VerifyProof(p, k); err != nil || !okp {
				return w.viol(obs("helper.verifyproof"), "version %d VerifyProof(own membership proof of %q)=%v,%v", v, k, okp, err)
			}
			if okn, _ := it.VerifyNonMembership(p, k); okn {
				return w.viol(obs("helper.verifynonmembership"), "version %d VerifyNonMembership(membership proof of present %q) = true", v, k)
			}
			w.Cnt["helper_verifications"]++
		}
		w.Cnt["membership_proofs"]++
		if pathVersions(rroot, k) >= 2 {
			w.Labels["proof_path_multi_version"] = true
		}
		// binding
		wrong := append(append([]byte{}, val...), 'x')
		if ics23.VerifyMembership(spec, root, p, k, wrong) || ics23.VerifyMembership(spec, root, p, k, val[:len(val)-1]) && len(val) > 1 {
			return w.viol(obs("binding.value"), "version %d membership proof of %q verifies for a different value", v, k)
		}
		for _, ok := range present {
			if ok != ks && ics23.VerifyMembership(spec, root, p, []byte(ok), val) {
				return w.viol(obs("binding.key"), "version %d membership proof of %q verifies for key %q", v, k, ok)
			}
		}
		if ics23.VerifyMembership(spec, root, p, append(append([]byte{}, k...), 0), val) {
			return w.viol(obs("binding.key"), "version %d membership proof of %q verifies for an extension of the key", v, k)
		}
		if ics23.VerifyNonMembership(spec, root, p, k) {
			return w.viol(obs("binding.kind"), "version %d membership proof of %q verifies as non-membership", v, k)
		}
		for _, o := range others {
			if ov, ok := o.kv[ks]; ok && bytes.Equal(ov, val) {
				continue // the claim is true in that version
			}
			if ics23.VerifyMembership(spec, o.root, p, k, val) {
				return w.viol(obs("binding.root"), "membership proof of %q=%q from version %d verifies under the root of version %d where the claim is false", k, val, v, o.ver)
			}
			w.Cnt["binding_other_root"]++
		}
	}
	for _, ks := range absent {
		k := []byte(ks)
		p, err := src.GetNonMembershipProof(k)
		if err != nil || p == nil || p.GetNonexist() == nil {
			return w.viol(obs("nonmembership.err"), "version %d GetNonMembershipProof(absent %q): %v", v, k, err)
		}
		if _, err := src.GetMembershipProof(k); err == nil {
			return w.viol(obs("wrongkind"), "version %d GetMembershipProof(absent %q) returned a proof", v, k)
		}
		p2, err := src.GetProof(k)
		if err != nil || p2 == nil || p2.GetNonexist() == nil {
			return w.viol(obs("getproof.kind"), "version %d GetProof(absent %q) is not a non-membership proof: %v", v, k, err)
		}
		// neighbours must be the model's predecessor / successor
		i := sort.SearchStrings(present, ks)
		ne := p.GetNonexist()
		var wantL, wantR []byte
		if i > 0 {
			wantL = []byte(present[i-1])
		}
		if i < len(present) {
			wantR = []byte(present[i])
		}
		var gotL, gotR []byte
		if ne.Left != nil {
			gotL = ne.Left.Key
		}
		if ne.Right != nil {
			gotR = ne.Right.Key
		}
		if !bytes.Equal(gotL, wantL) || !bytes.Equal(gotR, wantR) || (wantL == nil) != (ne.Left == nil) || (wantR == nil) != (ne.Right == nil) {
			return w.viol(obs("nonmembership.neighbours"), "version %d non-membership proof of %q is bracketed by (%q,%q) want (%q,%q)", v, k, gotL, gotR, wantL, wantR)
		}
		verifiable := len(k) > 0
		for _, nb := range [][]byte{wantL, wantR} {
			if nb != nil && (len(kv[string(nb)]) == 0 || len(nb) == 0) {
				verifiable = false // neighbour with empty value or empty key: see above
			}
		}
		if !verifiable {
			w.Cnt["proof_empty_value_skipped"]++
			continue
		}
		for _, pp := range []*ics23.CommitmentProof{p, p2} {
			if !ics23.VerifyNonMembership(spec, root, pp, k) {
				return w.viol(obs("nonmembership.verify"), "version %d non-membership proof of %q (between %q and %q) does not verify against the reference root", v, k, wantL, wantR)
			}
		}
		if versioned != nil {
			p3, err := versioned(k)
			if err != nil || p3.GetNonexist() == nil || !ics23.VerifyNonMembership(spec, root, p3, k) {
				return w.viol(obs("versioned.verify"), "GetVersionedProof(absent %q,%d) err=%v or does not verify", k, v, err)
			}
		}
		if it, ok := src.(*iavl.ImmutableTree); ok && via != "working." {
			if okn, err := it.VerifyNonMembership(p, k); err != nil || !okn {
				return w.viol(obs("helper.verifynonmembership"), "version %d VerifyNonMembership(own proof of absent %q)=%v,%v", v, k, okn, err)
			}
			if okp, err := it.VerifyProof(p, k); err != nil || !okp {
				return w.viol(obs("helper.verifyproof"), "version %d VerifyProof(own non-membership proof of %q)=%v,%v", v, k, okp, err)
			}
			for _, nb := range [][]byte{wantL, wantR} {
				if nb != nil {
					if okx, _ := it.VerifyNonMembership(p, nb); okx {
						return w.viol(obs("helper.verifynonmembership"), "version %d VerifyNonMembership(proof of %q, present key %q) = true", v, k, nb)
					}
				}
			}
			w.Cnt["helper_verifications"]++
		}
		w.Cnt["nonmembership_proofs"]++
		// binding
		for _, nb := range [][]byte{wantL, wantR} {
			if nb != nil && ics23.VerifyNonMembership(spec, root, p, nb) {
				return w.viol(obs("binding.key"), "version %d non-membership proof of %q verifies for the present key %q", v, k, nb)
			}
		}
		if ics23.VerifyMembership(spec, root, p, k, []byte("x")) {
			return w.viol(obs("binding.kind"), "version %d non-membership proof of %q verifies as membership", v, k)
		}
		for _, o := range others {
			if _, ok := o.kv[ks]; !ok {
				continue // absent there too: claim true
			}
			if ics23.VerifyNonMembership(spec, o.root, p, k) {
				return w.viol(obs("binding.root"), "non-membership proof of %q from version %d verifies under the root of version %d where the key is present", k, v, o.ver)
			}
			w.Cnt["binding_other_root"]++
		}
	}
	return nil
}

package harness

// Generators. Every random choice goes through rapid so shrinking and replay work.

import (
	"bytes"
	"os"
	"sort"

	"pgregory.net/rapid"
)

var keyPool = []string{"a", "b", "c", "d", "e", "f", "g", "h", "ab", "abc", "b\x00", "b\xff", "\x00", "\xff", "\xff\xff"}

var longKeys = []string{string(bytes.Repeat([]byte{'k'}, 127)), string(bytes.Repeat([]byte{'k'}, 128)), string(bytes.Repeat([]byte{'l'}, 300))}

// genKey: structured pool, [a-c]{1,3}, neighbours of existing keys, length-boundary keys. Never empty.
func genKey(t *rapid.T, existing map[string][]byte) []byte {
	// the empty key is a legal tree key (node and fast-node storage keys stay non-empty); rare on purpose
	if !noEmptyKey && rapid.IntRange(0, 29).Draw(t, "emptyKey") == 0 {
		return []byte{}
	}
	c := rapid.IntRange(0, 19).Draw(t, "kc")
	switch {
	case c < 9:
		return []byte(rapid.SampledFrom(keyPool).Draw(t, "kp"))
	case c < 14:
		return []byte(rapid.StringMatching(`[a-c]{1,3}`).Draw(t, "kr"))
	case c < 18 && len(existing) > 0:
		ks := sortedKeys(existing)
		k := rapid.SampledFrom(ks).Draw(t, "ke")
		if len(k) == 0 {
			return []byte(k + "\x00")
		}
		switch rapid.IntRange(0, 4).Draw(t, "km") {
		case 0, 1:
			return []byte(k)
		case 2:
			return []byte(k + "\x00")
		case 3:
			if len(k) > 1 {
				return []byte(k[:len(k)-1])
			}
			return []byte(k)
		default:
			b := []byte(k)
			if b[len(b)-1] < 0xff {
				b[len(b)-1]++
			}
			return b
		}
	case c == 19:
		return []byte(rapid.SampledFrom(longKeys).Draw(t, "kl"))
	default:
		return []byte(rapid.SampledFrom(keyPool).Draw(t, "kp2"))
	}
}

var noEmptyKey = os.Getenv("VERIF_NO_EMPTYKEY") != ""

var bigValue = bytes.Repeat([]byte{'V'}, 200)

func genValue(t *rapid.T) []byte {
	switch rapid.IntRange(0, 9).Draw(t, "vc") {
	case 0:
		return []byte{}
	case 1:
		return bigValue
	default:
		v := rapid.SliceOfN(rapid.Byte(), 1, 3).Draw(t, "v")
		return v
	}
}

// genExistingKey prefers a key that is present (for removals / updates).
func genRemoveKey(t *rapid.T, existing map[string][]byte) []byte {
	if len(existing) > 0 && rapid.IntRange(0, 4).Draw(t, "rk") > 0 {
		return []byte(rapid.SampledFrom(sortedKeys(existing)).Draw(t, "rke"))
	}
	return genKey(t, existing)
}

func genCfg(t *rapid.T, tiny bool) Cfg {
	c := Cfg{
		Cache:    rapid.SampledFrom([]int{0, 0, 1, 2, 5, 1000}).Draw(t, "cache"),
		SkipFast: rapid.Bool().Draw(t, "skipFast"),
		Flush:    rapid.SampledFrom([]int{150, 300, 1000, 100000}).Draw(t, "flush"),
		Sync:     rapid.IntRange(0, 3).Draw(t, "sync") == 0,
	}
	c.InitMethod = rapid.IntRange(0, 2).Draw(t, "initMethod") == 0
	return c
}

func genInitVer(t *rapid.T) uint64 {
	if rapid.IntRange(0, 3).Draw(t, "useInit") != 0 {
		return 0
	}
	// small values, varint / zig-zag boundaries (63|64, 127|128, 8191|8192), beyond 32 bits
	return rapid.SampledFrom([]uint64{1, 2, 7, 63, 64, 100, 127, 128, 8191, 8192, 1<<31 - 1, 1 << 33}).Draw(t, "initVer")
}

// Profile: weights of the step kinds for one property.
type Profile struct {
	MinSteps, MaxSteps int
	W                  map[string]int
	Backends           []string
	Reads              []string // read kinds for "read" steps
	NoInitVer          bool
	KeepFlush          bool // reopen keeps the flush threshold of the case (C05: operations stay split)
	NormalFormOneIn    int // one case in N draws every version's writes in normal form (ascending keys, one op per key)
	FixedSkipFast      *bool
	QuietOneIn         int // one case in N runs the observers only after the last step (drawn "vread" steps are checked)
}

var allReads = []string{"get", "has", "getwithindex", "getbyindex", "iterate", "iterator", "proof", "membership", "nonmembership",
	"versionedproof", "hash", "workinghash", "imhash", "getversioned", "getimmutable", "export"}

var baseWeights = map[string]int{"set": 30, "remove": 12, "save": 18, "rollback": 3, "reopen": 7, "prune": 7, "prune_refuse": 1,
	"lvfo": 3, "dvf": 2, "setnil": 1, "read": 0, "hop": 0, "iter": 0, "pin": 0, "unpin": 0, "lvfo_invalid": 0, "replay": 0, "hold": 0, "reload": 0, "reload_invalid": 0, "setinit": 0, "vread": 0}

func weights(over map[string]int) map[string]int {
	m := map[string]int{}
	for k, v := range baseWeights {
		m[k] = v
	}
	for k, v := range over {
		m[k] = v
	}
	return m
}

func (w *World) indexCurrentOnDisk() bool { return w.EverFast && w.IndexLabel == w.Latest }

// trackIndex updates the model of the persisted index label after op was applied successfully.
func (w *World) trackIndex(op Op) {
	switch op.Kind {
	case "save", "reopen", "reload", "lvfo", "dvf", "hop":
		if !w.Cfg.SkipFast {
			w.IndexLabel = w.Latest
		}
	}
}

// GenOp draws the next step; preconditions are satisfied by construction.
func GenOp(t *rapid.T, w *World, p *Profile) Op {
	type cand struct {
		kind string
		wt   int
	}
	var cs []cand
	add := func(kind string, enabled bool) {
		if wt := p.W[kind]; wt > 0 && enabled {
			cs = append(cs, cand{kind, wt})
		}
	}
	add("set", true)
	add("remove", true)
	// never commit into a hole of a legacy store (older version loaded whose successor was deleted on the legacy side)
	saveOK := w.Cur == w.Latest || w.Vers[w.Cur+1] != nil
	if saveOK && Open("F29") && w.WRoot != nil && !hasUnstamped(w.WRoot) && w.WRoot.Version <= w.LegacyOrig {
		if prev, ok := w.Reformatted[w.WRoot.Version]; ok && prev != w.WRoot {
			saveOK = false // steer around F29: a second, different legacy node of one version would be re-formatted at (version,0)
			w.Excl["F29"]++
		}
	}
	add("save", saveOK)
	if w.Quiet && saveOK && w.LastVReadOp.Kind != "" && w.Erased[w.LastVReadOp.N] {
		// the version asked for last was erased by a rollback: commit (different contents) until that number exists again
		cs = append(cs, cand{"save", 70}, cand{"set", 40}, cand{"remove", 15})
	}
	if vs := w.Vers[w.WorkingVersion()]; vs != nil && vs.Logged && len(vs.Writes) > 0 && !w.Dirty && w.Cur < w.Latest && w.Vers[w.Cur] != nil {
		add("replay", true)
		if p.W["replay"] > 0 {
			// an older version is loaded and nothing has been written yet: a restarted node that replays its next block is
			// the typical continuation (one write of its own would close the window)
			cs = append(cs, cand{"replay", 5 * p.W["replay"]})
		}
	}
	if vs := w.Vers[w.WorkingVersion()]; vs != nil && len(vs.Writes) == 0 && !w.Dirty && w.Cur < w.Latest && w.Vers[w.Cur] != nil && saveOK && p.W["replay"] > 0 {
		// the next existing version was a commit without writes: its replay is a plain SaveVersion - and a restarted node
		// may well prune (below the version it sits on) before it gets there
		cs = append(cs, cand{"save", 4 * p.W["replay"]})
		if p.W["prune"] > 0 && w.First < w.Cur {
			cs = append(cs, cand{"prune", 2 * p.W["replay"]})
		}
	}
	add("rollback", true)
	add("reopen", true)
	add("prune", w.Latest > 0)
	add("prune_refuse", w.Latest > 0)
	rollbackOK := w.Latest > 0
	if rollbackOK && Open("F3") && w.Cfg.SkipFast && w.EverFast {
		// steer around F3: rollback of versions by a handle with the index disabled while a label exists
		rollbackOK = false
		w.Excl["F3"]++
	}
	if w.LiveInitAbove {
		rollbackOK = false // (LoadVersion on this handle is documented to fail: initial version above the first stored one)
	}
	add("lvfo", rollbackOK)
	if w.Quiet && rollbackOK && p.W["lvfo"] > 0 && w.LastVReadOp.Kind != "" && w.Vers[w.LastVReadOp.N] != nil && w.First < w.LastVReadOp.N {
		cs = append(cs, cand{"lvfo_below_last_vread", 14}) // roll back the very version a client has just been reading
	}
	add("lvfo_invalid", w.Latest > 0)
	add("dvf", rollbackOK)
	add("setnil", true)
	add("read", true)
	add("iter", true)
	npins := 0
	for _, exs := range w.Pins {
		npins += len(exs)
	}
	add("pin", w.Latest > 0 && npins < 3)
	add("unpin", len(w.Pins) > 0)
	add("hold", w.Latest > 0 && len(w.Held) < 3)
	reloadOK := w.Latest > 0
	if reloadOK && Open("F2") && !w.Cfg.SkipFast && !w.indexCurrentOnDisk() {
		reloadOK = false // steer around F2 as for reopen
	}
	add("reload", reloadOK && !w.LiveInitAbove)
	add("reload_invalid", w.Latest > 0 && !w.LiveInitAbove)
	add("setinit", !w.Dirty)
	if w.Quiet && w.LastVReadOp.Kind != "" && w.Erased[w.LastVReadOp.N] {
		// (no other versioned read while the version asked for last is waiting to be committed again)
	} else if w.Quiet && w.Recommitted[w.LastVReadOp.N] && w.Vers[w.LastVReadOp.N] != nil {
		cs = append(cs, cand{"vread", 60}) // the version last asked for was erased and committed again: ask again soon
	} else if w.Quiet && w.Latest > 0 && p.W["vread"] == 0 {
		cs = append(cs, cand{"vread", 28}) // quiet cases are checked through drawn versioned reads
	} else {
		add("vread", w.Latest > 0)
	}
	// the importer allocates a nonce table of size version+1: keep imports to realistic version numbers
	add("hop", w.Latest > 0 && !w.Dirty && w.Latest < 1<<20)
	total := 0
	for _, c := range cs {
		total += c.wt
	}
	x := rapid.IntRange(0, total-1).Draw(t, "step")
	kind := ""
	for _, c := range cs {
		if x < c.wt {
			kind = c.kind
			break
		}
		x -= c.wt
	}
	switch kind {
	case "set":
		return Op{Kind: "set", K: w.normalKey(genKey(t, w.WKV)), V: genValue(t)}
	case "setnil":
		return Op{Kind: "setnil", K: genKey(t, w.WKV)}
	case "remove":
		return Op{Kind: "remove", K: w.normalKey(genRemoveKey(t, w.WKV))}
	case "save", "rollback", "replay":
		return Op{Kind: kind}
	case "reopen":
		c := genCfg(t, false)
		if p.FixedSkipFast != nil {
			c.SkipFast = *p.FixedSkipFast
		}
		if p.KeepFlush {
			c.Flush = w.Cfg.Flush
		}
		// InitialVersion: keep, drop, or (empty store) re-draw; never above the first stored version
		c.InitVer = w.Cfg.InitVer
		if w.Latest == 0 {
			if !p.NoInitVer && rapid.IntRange(0, 2).Draw(t, "reInit") == 0 {
				c.InitVer = genInitVer(t)
			}
		} else if rapid.IntRange(0, 2).Draw(t, "dropInit") == 0 {
			c.InitVer = 0
		}
		var target int64
		if w.Latest > 0 && rapid.IntRange(0, 3).Draw(t, "old") == 0 {
			target = rapid.SampledFrom(w.Retained()).Draw(t, "target")
		}
		if Open("F2") && !c.SkipFast && target != 0 && target != w.Latest && !w.indexCurrentOnDisk() {
			c.SkipFast = true // steer around F2: index (re)built while an older version is loaded
			w.Excl["F2"]++
		}
		return Op{Kind: "reopen", N: target, Cfg: &c, Flag: rapid.Bool().Draw(t, "closeFirst")}
	case "prune":
		hi := w.Cur - 1 // never the version the live handle is based on (documented precondition)
		if hi >= w.Latest {
			hi = w.Latest - 1
		}
		// also targets below the oldest retained version (repeated / late requests): must be a no-op
		lo := w.First - 3
		if lo < 0 {
			lo = 0
		}
		if hi < lo {
			hi = lo
		}
		return Op{Kind: "prune", N: rapid.Int64Range(lo, hi).Draw(t, "to")}
	case "prune_refuse":
		return Op{Kind: "prune", N: w.Latest + int64(rapid.IntRange(0, 1).Draw(t, "over"))}
	case "lvfo":
		return Op{Kind: "lvfo", N: rapid.SampledFrom(w.Retained()).Draw(t, "to")}
	case "lvfo_below_last_vread":
		var below []int64
		for _, v := range w.Retained() {
			if v < w.LastVReadOp.N {
				below = append(below, v)
			}
		}
		return Op{Kind: "lvfo", N: rapid.SampledFrom(below).Draw(t, "toBelow")}
	case "lvfo_invalid":
		// below the oldest retained version (deleted / never existed) or above the latest
		if w.First > 1 && rapid.Bool().Draw(t, "invLow") {
			return Op{Kind: "lvfo_invalid", N: rapid.Int64Range(1, w.First-1).Draw(t, "invTo")}
		}
		return Op{Kind: "lvfo_invalid", N: w.Latest + int64(rapid.IntRange(1, 3).Draw(t, "invOver"))}
	case "dvf":
		o := Op{Kind: "dvf", N: rapid.SampledFrom(w.Retained()).Draw(t, "to"), Flag: rapid.Bool().Draw(t, "fresh")}
		if rapid.IntRange(0, 2).Draw(t, "dvfCold") == 0 {
			o.Read = "cold" // DeleteVersionsFrom as the first call on a brand-new handle
		}
		return o
	case "hop":
		c := genCfg(t, false)
		hop := Op{Kind: "hop", N: rapid.SampledFrom(w.Retained()).Draw(t, "ver"), Flag: rapid.Bool().Draw(t, "compress"), Cfg: &c}
		switch rapid.IntRange(0, 3).Draw(t, "hopHandle") {
		case 0:
			hop.Read = "preused" // the receiving handle was written to (and emptied again) before; it also goes on afterwards
		case 1:
			hop.Read = "samehandle" // the importing handle goes on after the import (no fresh handle, no Load)
		}
		return hop
	case "pin":
		if len(w.Pins) > 0 && rapid.Bool().Draw(t, "pinSame") {
			// a second export of a version that is already being exported
			vs := make([]int64, 0, len(w.Pins))
			for v := range w.Pins {
				vs = append(vs, v)
			}
			sort.Slice(vs, func(i, j int) bool { return vs[i] < vs[j] })
			return Op{Kind: "pin", N: vs[0]}
		}
		if len(w.WOps) == 0 && w.Vers[w.Cur] != nil && rapid.IntRange(0, 2).Draw(t, "pinWriter") == 0 {
			// Export called on the MutableTree itself (it embeds the ImmutableTree of the version it sits on)
			return Op{Kind: "pin", N: w.Cur, Flag: true}
		}
		return Op{Kind: "pin", N: rapid.SampledFrom(w.Retained()).Draw(t, "pinv")}
	case "vread":
		// a version number that was rolled back and committed again since it was last asked for: the same question again
		if w.Recommitted[w.LastVReadOp.N] && w.Vers[w.LastVReadOp.N] != nil && rapid.IntRange(0, 3).Draw(t, "vrAgain") != 0 {
			w.Labels["vread_repeated_after_the_version_was_rolled_back_and_recommitted"] = true
			return w.LastVReadOp
		}
		n := w.Latest
		if rapid.IntRange(0, 2).Draw(t, "vrOlder") == 0 {
			n = rapid.SampledFrom(w.Retained()).Draw(t, "vrv")
		}
		// a client tends to ask for the same version again (also after that number was rolled back and re-committed)
		if _, ok := w.Vers[w.LastVRead]; ok && rapid.IntRange(0, 2).Draw(t, "vrSame") != 0 {
			n = w.LastVRead
		}
		return Op{Kind: "vread", N: n, K: genKey(t, w.Vers[n].KV), Read: rapid.SampledFrom([]string{"get", "versioned", "proof", "has", "hash", "iterate", "proof", "get"}).Draw(t, "vrk")}
	case "setinit":
		if w.Latest > 0 && rapid.Bool().Draw(t, "setinitAbove") {
			return Op{Kind: "setinit", N: w.Latest + int64(rapid.IntRange(1, 5).Draw(t, "setinitD"))}
		}
		return Op{Kind: "setinit", N: int64(rapid.SampledFrom([]uint64{1, 2, 7, 64, 128}).Draw(t, "setinitV"))}
	case "reload":
		if rapid.Bool().Draw(t, "reloadLatest") {
			return Op{Kind: "reload", N: 0}
		}
		return Op{Kind: "reload", N: rapid.SampledFrom(w.Retained()).Draw(t, "reloadv")}
	case "reload_invalid":
		if w.First > 1 && rapid.Bool().Draw(t, "rinvLow") {
			return Op{Kind: "reload_invalid", N: rapid.Int64Range(1, w.First-1).Draw(t, "rinvTo")}
		}
		return Op{Kind: "reload_invalid", N: w.Latest + int64(rapid.IntRange(1, 3).Draw(t, "rinvOver"))}
	case "hold":
		if rapid.Bool().Draw(t, "holdLatest") {
			return Op{Kind: "hold", N: w.Latest}
		}
		return Op{Kind: "hold", N: rapid.SampledFrom(w.Retained()).Draw(t, "holdv")}
	case "unpin":
		vs := make([]int64, 0, len(w.Pins))
		for v := range w.Pins {
			vs = append(vs, v)
		}
		sort.Slice(vs, func(i, j int) bool { return vs[i] < vs[j] })
		return Op{Kind: "unpin", N: rapid.SampledFrom(vs).Draw(t, "unpinv")}
	case "iter":
		keys := unionKeys(w.WKV)
		if w.Latest > 0 {
			keys = unionKeys(w.WKV, w.Vers[w.Latest].KV)
		}
		op := Op{Kind: "iter", Flag: rapid.Bool().Draw(t, "asc")}
		if b := GenBound(t, keys, "s"); b == nil {
			op.StartNil = true
		} else {
			op.Start = b
		}
		if b := GenBound(t, keys, "e"); b == nil {
			op.EndNil = true
		} else {
			op.End = b
		}
		if rapid.IntRange(0, 2).Draw(t, "stop") == 0 {
			op.N = int64(rapid.IntRange(1, 4).Draw(t, "stopAt"))
		}
		return op
	case "read":
		reads := p.Reads
		if len(reads) == 0 {
			reads = allReads
		}
		r := rapid.SampledFrom(reads).Draw(t, "read")
		op := Op{Kind: "read", Read: r, K: genKey(t, w.WKV)}
		switch r {
		case "getbyindex":
			op.N = int64(rapid.IntRange(0, len(w.WKV)).Draw(t, "idx"))
		case "versionedproof", "getversioned", "getimmutable", "export":
			if w.Latest > 0 {
				op.N = rapid.SampledFrom(w.Retained()).Draw(t, "rv")
			}
		case "iterator":
			op.Flag = rapid.Bool().Draw(t, "asc")
		}
		if Open("F1") && w.WorkingVersion() != w.Cur+1 && (r == "proof" || r == "membership" || r == "nonmembership" || r == "imhash") {
			w.Excl["F1"]++
			op.Read = "get"
		}
		return op
	}
	panic("no step kind")
}

// GenBound draws an iteration bound related to the key set (C08, C18, C19).
func GenBound(t *rapid.T, keys []string, label string) []byte {
	switch rapid.IntRange(0, 7).Draw(t, label+"c") {
	case 0:
		return nil
	case 1:
		return []byte{}
	case 2, 3, 4:
		if len(keys) > 0 {
			k := rapid.SampledFrom(keys).Draw(t, label+"k")
			if len(k) == 0 {
				return []byte{}
			}
			switch rapid.IntRange(0, 4).Draw(t, label+"m") {
			case 0, 1:
				return []byte(k)
			case 2:
				return []byte(k + "\x00")
			case 3:
				return []byte(k[:len(k)-1])
			default:
				b := []byte(k)
				if b[len(b)-1] > 0 {
					b[len(b)-1]--
					return append(b, 0xff)
				}
				return b
			}
		}
		return []byte("a")
	default:
		return genKey(t, nil)
	}
}

func unionKeys(ms ...map[string][]byte) []string {
	seen := map[string]bool{}
	for _, m := range ms {
		for k := range m {
			seen[k] = true
		}
	}
	out := make([]string, 0, len(seen))
	for k := range seen {
		out = append(out, k)
	}
	sort.Strings(out)
	return out
}

// normalKey: in a normal-form case every write of a version uses a key above the previous one.
func (w *World) normalKey(k []byte) []byte {
	if !w.NormalForm || len(w.WOps) == 0 {
		return k
	}
	last := w.WOps[len(w.WOps)-1].K
	if bytes.Compare(k, last) > 0 {
		return k
	}
	// next present key above last, else an extension of last
	for _, e := range sortedKeys(w.WKV) {
		if e > string(last) {
			return []byte(e)
		}
	}
	return append(append([]byte{}, last...), 0x01)
}

#!/usr/bin/env python3
"""Generates MANIFEST.json from checks_config.py + manifest_meta.py (kept in one place so it stays valid)."""
import json
import os
import subprocess
import sys

ROOT = os.path.dirname(os.path.abspath(__file__))
sys.path.insert(0, ROOT)
from checks_config import CHECKS  # noqa
from manifest_meta import META, NOT_APPLICABLE_REASONS, HOOK_COMMITS  # noqa

ALL = ["C%02d" % i for i in range(1, 21)]

checks = []
for pid in ALL:
    if pid not in CHECKS or pid not in META:
        continue
    m = META[pid]
    c = CHECKS[pid]
    checks.append({
        "property_id": pid,
        "quick_cmd": "python3 verif.py check %s quick" % pid,
        "thorough_cmd": "python3 verif.py check %s thorough" % pid,
        "evidence_file": "/verif/evidence/%s.json" % pid,
        "replay_cmd_template": "python3 verif.py replay %s {path}" % pid,
        "engine": m.get("engine", "harness"),
        "level_claimed": {"category": c["level"], "text": m["level_text"], "design_ref": m.get("design_ref", "DESIGN.md §3 " + pid)},
        "level_note": m["level_note"],
        "technique": m["technique"],
    })

na = [{"property_id": pid, "reason": NOT_APPLICABLE_REASONS.get(pid, "check not built yet (work in progress in this session)")}
      for pid in ALL if pid not in [c["property_id"] for c in checks]]

manifest = {
    "version": 1,
    "setup_cmd": "python3 verif.py setup",
    "hooks": {
        "guard": "verif",
        "enable": "go build tag: go test -tags verif (the harness modules replace github.com/cosmos/iavl => /repo and are always built with -tags verif)",
        "baseline_off_cmd": "for m in . cmd/legacydump v2 v2/migrate; do (cd /repo/$m && GOFLAGS=-mod=mod go test -json -vet=off -count=1 -timeout 25m ./...); done",
        "source_commits": HOOK_COMMITS,
        "add_only": True,
    },
    "engines": [
        {"name": "harness", "path": "/verif/harness", "serves_properties": [p for p in ALL if p in META and META[p].get("engine", "harness") == "harness"],
         "kind_free_text": "Go test module (rapid v1.3.0 state machines / generators, native go fuzz targets) built against /repo via a replace directive; reference IAVL+ model, storage seam, independent codec"},
        {"name": "harness_v2", "path": "/verif/harness_v2", "serves_properties": [p for p in ALL if p in META and META[p].get("engine") == "harness_v2"],
         "kind_free_text": "Go test module for iavl/v2 (cgo sqlite) with the same reference model"},
        {"name": "legacygen", "path": "/verif/legacygen", "serves_properties": ["C16"] if "C16" in META else [],
         "kind_free_text": "co-process built from iavl v0.20.0 + cometbft-db v0.7.0 (module cache): executes generated legacy histories and dumps the raw database and the hashes the legacy library reported"},
        {"name": "verif.py", "path": "/verif/verif.py", "serves_properties": [c["property_id"] for c in checks],
         "kind_free_text": "driver: rebuilds from /repo's working tree, shards by seed, replay tier for known findings/regressions, merges statistics into evidence, exit codes"},
    ],
    "checks": checks,
    "not_applicable": na,
    "notes": "All checks are generated-input search against an explicit oracle (property-based testing / fuzzing). Known findings: /verif/known_findings.json. Design: /verif/DESIGN.md.",
}
json.dump(manifest, open(os.path.join(ROOT, "MANIFEST.json"), "w"), indent=1)
print("MANIFEST.json: %d checks, %d not_applicable" % (len(checks), len(na)))
try:
    import jsonschema
    jsonschema.validate(manifest, json.load(open("/root/.vp/MANIFEST.schema.json")))
    print("schema ok")
except ImportError:
    pass

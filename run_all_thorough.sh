#!/bin/bash
# runs every thorough check in sequence; prints one summary line per property
for id in C02 C08 C12 C13 C14 C15 C11 C18 C19 C20 C16 C17 C05 C10 C07 C09 C03 C01 C06 C04; do
  start=$(date +%s)
  python3 verif.py check $id thorough > thorough_$id.log 2>&1
  rc=$?
  echo "$id exit=$rc wall=$(( $(date +%s) - start ))s $(grep -E '^(OK|VIOLATION|INCONCLUSIVE)' thorough_$id.log | head -3 | tr '\n' ' ' | cut -c1-300)"
done

#!/bin/bash
# runs every thorough check in sequence; prints one summary line per property
for id in ${SWEEP_IDS:-C04 C01 C06 C10 C17 C20 C13 C16 C02 C14 C11 C12 C05 C07 C09 C03 C08 C15 C18 C19}; do
  start=$(date +%s)
  python3 verif.py check $id thorough > thorough_$id.log 2>&1
  rc=$?
  echo "$id exit=$rc wall=$(( $(date +%s) - start ))s $(grep -E '^(OK|VIOLATION|INCONCLUSIVE)' thorough_$id.log | head -3 | tr '\n' ' ' | cut -c1-300)"
done

#!/usr/bin/env python3
"""Driver of the /verif checks.

  verif.py setup                      build-check the harness modules offline
  verif.py check <ID> [quick|thorough]
  verif.py replay <ID> <file>         replay one recorded case against /repo's current tree

Exit codes of `check`: 0 = property held on everything explored (KNOWN-FINDING lines may be printed),
1 = violation (line `VIOLATION property=<id> replay=<path>`), 2 = inconclusive (build failure, timeout,
worker death, fewer cases executed than requested).
"""
import hashlib
import json
import os
import re
import shutil
import subprocess
import sys
import time

ROOT = os.path.dirname(os.path.abspath(__file__))
# VERIF_SCRATCH: put out/, build/ and evidence/ of this invocation elsewhere (used when a check is run against
# a mutated copy of the repository, so that the committed evidence is not overwritten)
WORK = os.environ.get("VERIF_SCRATCH", ROOT)
sys.path.insert(0, ROOT)
from checks_config import CHECKS  # noqa: E402

GOENV = {
    "GOFLAGS": "-mod=mod",
    "GOPROXY": "off",
    "GOSUMDB": "off",
    "GOTOOLCHAIN": "local",
    "GONOSUMDB": "*",
    "GONOSUMCHECK": "1",
}
TAG = "verif"
NCPU = os.cpu_count() or 4


def env_base():
    e = dict(os.environ)
    e.update(GOENV)
    e["VERIF_ROOT"] = ROOT
    return e


def repo_path():
    return os.environ.get("VERIF_REPO", "/repo")


def module_dir(mod):
    return os.path.join(ROOT, mod)


def prepare_modfile(mod):
    """Return extra go args selecting a go.mod whose replace points at $VERIF_REPO (if set)."""
    repo = repo_path()
    if repo == "/repo":
        return []
    src = os.path.join(module_dir(mod), "go.mod")
    dst_dir = os.path.join(WORK, "build")
    os.makedirs(dst_dir, exist_ok=True)
    tag = hashlib.sha1(repo.encode()).hexdigest()[:8]
    dst = os.path.join(dst_dir, "%s-%s.mod" % (mod, tag))
    txt = open(src).read().replace("=> /repo", "=> " + repo)
    open(dst, "w").write(txt)
    shutil.copy(os.path.join(module_dir(mod), "go.sum"), dst[:-4] + ".sum")
    return ["-modfile=" + dst]


def build(mod, race=False, log=None):
    """Build the test binary of a harness module from /repo's current working tree."""
    os.makedirs(os.path.join(WORK, "build"), exist_ok=True)
    out = os.path.join(WORK, "build", "%s%s-%d.test" % (mod, "-race" if race else "", os.getpid()))
    cmd = ["go", "test", "-c", "-tags", TAG, "-vet=off", "-o", out] + prepare_modfile(mod)
    if race:
        cmd.insert(2, "-race")
    cmd.append(".")
    p = subprocess.run(cmd, cwd=module_dir(mod), env=env_base(), stdout=subprocess.PIPE, stderr=subprocess.STDOUT, text=True)
    if p.returncode != 0:
        print("BUILD-FAILED module=%s\n%s" % (mod, p.stdout[-4000:]))
        return None
    return out


def seed_for(base, pid, name, shard):
    h = hashlib.sha256(("%d/%s/%s/%d" % (base, pid, name, shard)).encode()).digest()
    return (int.from_bytes(h[:6], "big") | 1)


OOM_RE = re.compile(r"^fatal error: (?:runtime: )?(?:out of memory|cannot allocate memory)", re.M)


def limit_memory(gb=None):
    """one runaway case must not take the machine (and the other shards) down: cap the address space of a test process;
    the Go runtime then aborts with 'fatal error: [runtime: ]out of memory', which the driver maps to INCONCLUSIVE -
    except in runs marked VERIF_OOM_IS_VIOLATION (C13c: decoders of a few bytes of input; the property itself says
    'never allocating without bound', and the process needs a few MB otherwise)."""
    import resource
    gb = int(gb or os.environ.get("VERIF_MEM_GB", "24"))
    try:
        resource.setrlimit(resource.RLIMIT_AS, (gb << 30, gb << 30))
    except Exception:
        pass


class Result:
    def __init__(self):
        self.violations = []   # (property, replay path, text)
        self.inconclusive = []
        self.known = {}        # finding id -> text
        self.stats = []        # stats dicts
        self.executed = 0
        self.requested = 0
        self.notes = []


VIOL_RE = re.compile(r"VERIF-VIOLATION property=(\S+) replay=(\S+)(.*)")
PASSED_RE = re.compile(r"\[rapid\] OK, passed (\d+) tests")
KNOWNHIT_RE = re.compile(r"VERIF-KNOWN finding=(\S+)")


def run_procs(jobs, res, timeout):
    """jobs: list of (name, argv, env, cwd, requested_checks). Runs up to NCPU at once."""
    pending = list(jobs)
    running = []
    maxpar = int(os.environ.get("VERIF_JOBS", NCPU))
    deadline = time.time() + timeout
    outputs = {}
    while pending or running:
        while pending and len(running) < maxpar:
            name, argv, env, cwd, req = pending.pop(0)
            logf = open(env["VERIF_LOG"], "w")
            limit = None if env.get("VERIF_RACE_BUILD") else (lambda gb=env.get("VERIF_MEM_GB"): limit_memory(gb))  # the race runtime reserves terabytes of address space
            p = subprocess.Popen(argv, cwd=cwd, env=env, stdout=logf, stderr=subprocess.STDOUT, preexec_fn=limit)
            running.append((name, p, logf, env, req))
        time.sleep(0.05)
        still = []
        for name, p, logf, env, req in running:
            rc = p.poll()
            if rc is None:
                if time.time() > deadline:
                    p.kill()
                    p.wait()
                    logf.close()
                    res.inconclusive.append("%s: timeout after %ds" % (name, timeout))
                else:
                    still.append((name, p, logf, env, req))
                continue
            logf.close()
            outputs[name] = (rc, env, req)
        running = still
    for name, (rc, env, req) in outputs.items():
        txt = open(env["VERIF_LOG"], errors="replace").read()
        viol = VIOL_RE.findall(txt)
        if viol:
            prop, path, rest = viol[-1]
            res.violations.append((prop, path, rest.strip()[:600]))
        passed = [int(x) for x in PASSED_RE.findall(txt)]
        res.executed += sum(passed)
        res.requested += req
        if "WARNING: DATA RACE" in txt:
            # race detector report: fingerprint by the top frames of the two accesses
            rep = txt.split("WARNING: DATA RACE")[1].split("==================")[0]
            frames = re.findall(r"^\s+(\S+\(\))\n\s+\S+?([^/\s]+:\d+)", rep, re.M)
            fpr = " vs ".join("%s@%s" % f for f in frames[:1] + [x for x in frames[1:] if x != frames[0]][:1])
            res.violations.append((name.split("#")[0], env["VERIF_LOG"], "DATA RACE " + fpr + " (%d reports in this shard)" % txt.count("WARNING: DATA RACE")))
            viol = viol or ["race"]
        fatal = re.search(r"^(fatal error: [^\n]*)", txt, re.M)
        if fatal and OOM_RE.search(txt) and not env.get("VERIF_OOM_IS_VIOLATION"):
            fatal = None
        if rc != 0 and not viol and fatal:
            # the Go runtime aborted the process inside the code under test (e.g. unlock of unlocked mutex,
            # concurrent map writes): the property 'never crashes' is violated; the log is the replay artefact
            pend = env.get("VERIF_PENDING")
            rp = env["VERIF_LOG"]
            if pend and os.path.exists(pend):  # the input that was being processed when the runtime aborted
                rp = pend.replace("pending-", "fatal-replay-")
                os.replace(pend, rp)
            res.violations.append((name.split("#")[0], rp, fatal.group(1)[:300]))
            viol = [fatal.group(1)]
        if rc != 0 and not viol:
            tail = txt[-3000:]
            if "panic: test timed out" in txt:
                res.inconclusive.append("%s: go test deadline" % name)
            else:
                res.inconclusive.append("%s: exit %d without a violation line\n%s" % (name, rc, tail))
        elif rc == 0 and req and sum(passed) < req:
            res.inconclusive.append("%s: executed %d of %d requested cases" % (name, sum(passed), req))
        sp = env.get("VERIF_STATS")
        if sp and os.path.exists(sp):
            try:
                res.stats.append(json.load(open(sp)))
            except Exception as ex:  # noqa
                res.inconclusive.append("%s: unreadable stats: %s" % (name, ex))


def minimize_replays(pid, cfg, binaries, res, outdir):
    """World histories shrink poorly under rapid (every step is drawn from a state-dependent generator): each replay
    file of a violation is minimized once more by delta debugging over its op list (TestMinimize; same observer must
    still fail, open known findings are not accepted as the same failure). Best effort, bounded, never changes the verdict."""
    mod = cfg.get("module", "harness")
    binary = binaries.get(mod)
    if binary is None or mod != "harness":
        return
    seen = set()
    for prop, path, _ in res.violations:
        if path in seen or not path.endswith(".json") or not os.path.abspath(path).startswith(os.path.abspath(outdir)) or not os.path.exists(path):
            continue
        seen.add(path)
        env = env_base()
        env["VERIF_REPLAY"] = path
        env["VERIF_OUT"] = outdir
        try:
            p = subprocess.run([binary, "-test.run", "^TestMinimize$", "-test.v", "-test.timeout", "120s"], cwd=module_dir(mod), env=env,
                               stdout=subprocess.PIPE, stderr=subprocess.STDOUT, text=True, timeout=150, preexec_fn=limit_memory)
            m = re.search(r"MINIMIZED path=\S+ (ops \d+ -> \d+ \(\d+ replays\))", p.stdout)
            if m:
                res.notes.append("replay %s minimized: %s" % (os.path.basename(path), m.group(1)))
                try:
                    mv = json.load(open(path)).get("violation") or {}
                    txt = "observer=%s :: %s" % (mv.get("observer"), mv.get("msg"))
                    res.violations = [(a, b, txt[:600] + " [minimized: " + m.group(1) + "]") if b == path else (a, b, c) for a, b, c in res.violations]
                except Exception:  # noqa
                    pass
        except Exception as ex:  # noqa
            res.notes.append("minimization of %s skipped: %s" % (path, ex))


def load_known():
    p = os.path.join(ROOT, "known_findings.json")
    if not os.path.exists(p):
        return []
    return json.load(open(p)).get("findings", [])


def replay_tier(pid, cfg, binaries, res, outdir):
    """Replays known-finding and regression inputs of this property."""
    findings = [f for f in load_known() if pid in f.get("property", "").split("/") or pid in f.get("also", [])]
    items = []  # (path, expect, finding)
    for f in findings:
        rp = f.get("replay")
        if not rp:
            continue
        for one in (rp if isinstance(rp, list) else [rp]):
            path = os.path.join(ROOT, one)
            items.append((path, "fail" if f["status"] == "open" else "pass", f))
    rdir = os.path.join(ROOT, "regress", pid)
    if os.path.isdir(rdir):
        for fn in sorted(os.listdir(rdir)):
            if fn.endswith(".json"):
                items.append((os.path.join(rdir, fn), "pass", None))
    if not items:
        return
    by_mod = {cfg.get("module", "harness"): items}
    for mod, its in by_mod.items():
        binary = binaries.get(mod)
        if binary is None:
            binary = build(mod)
            binaries[mod] = binary
            if binary is None:
                res.inconclusive.append("build of %s failed" % mod)
                return
        env = env_base()
        env["VERIF_REPLAY_LIST"] = json.dumps([i[0] for i in its])
        env["VERIF_NO_KNOWN"] = "1"  # replays are evaluated strictly: no steering, no tolerated known symptoms
        env["VERIF_OUT"] = outdir
        env["VERIF_PROP"] = pid
        p = subprocess.run([binary, "-test.run", "^TestReplay$", "-test.v", "-test.timeout", "600s"], cwd=module_dir(mod), env=env,
                           stdout=subprocess.PIPE, stderr=subprocess.STDOUT, text=True)
        results = {}
        for m in re.finditer(r"REPLAY-RESULT path=(\S+) result=(\S+)(.*)", p.stdout):
            results[m.group(1)] = (m.group(2), m.group(3).strip())
        for path, expect, f in its:
            got, text = results.get(path, ("missing", p.stdout[-1500:]))
            if got == "error" or got == "missing":
                res.inconclusive.append("replay %s: %s %s" % (path, got, text))
            elif expect == "pass" and got == "fail":
                # a regression input or the replay of a FIXED finding fails again
                res.violations.append((pid, path, text[:600]))
            elif expect == "fail" and got == "fail":
                res.known[f["id"]] = f["what"]
            elif expect == "fail" and got == "pass":
                res.notes.append("open finding %s no longer reproduces from %s" % (f["id"], path))
        res.notes.append("replay tier: %d inputs" % len(its))


def merge_stats(pid, stats_list):
    merged = {"evaluations": 0, "nontrivial": set(), "labels": {}, "counters": {}, "samples": [], "known_hits": {}}
    for st in stats_list:
        for prop, s in st.items():
            if prop != pid:
                continue
            merged["evaluations"] += s.get("evaluations", 0)
            merged["nontrivial"].update((s.get("nontrivial") or {}).keys())
            for k, v in (s.get("labels") or {}).items():
                merged["labels"][k] = merged["labels"].get(k, 0) + v
            for k, v in (s.get("counters") or {}).items():
                if k.startswith("max_"):
                    merged["counters"][k] = max(merged["counters"].get(k, 0), v)
                else:
                    merged["counters"][k] = merged["counters"].get(k, 0) + v
            for k, v in (s.get("known_hits") or {}).items():
                merged["known_hits"][k] = merged["known_hits"].get(k, 0) + v
            for smp in (s.get("samples") or []):
                if len(merged["samples"]) < 3:
                    merged["samples"].append(smp)
    return merged


def write_evidence(pid, tier, seed, cfg, res, merged, wall, nviol):
    os.makedirs(os.path.join(WORK, "evidence"), exist_ok=True)
    cov = {
        "evaluations": merged["evaluations"],
        "distinct_nontrivial": len(merged["nontrivial"]),
        "rule": cfg["rule"],
        "samples": merged["samples"],
        "labels": dict(sorted(merged["labels"].items())),
        "counters": dict(sorted(merged["counters"].items())),
        "known_finding_hits_in_search": merged["known_hits"],
        "known_findings_reproduced_by_replay": sorted(res.known.keys()),
        "rapid_cases_requested": res.requested,
        "rapid_cases_executed": res.executed,
        "notes": res.notes,
        "exhaustive": False,
    }
    cov.update(cfg.get("coverage_extra", {}))
    ev = {
        "property_id": pid,
        "tier": tier,
        "seed": seed,
        "level": cfg["level"],
        "coverage": cov,
        "assumptions": cfg.get("assumptions", []),
        "wall_s": round(wall, 2),
        "violations": nviol,
    }
    path = os.path.join(WORK, "evidence", pid + ".json")
    tmp = path + ".tmp"
    json.dump(ev, open(tmp, "w"), indent=1, default=str)
    os.replace(tmp, path)


def check(pid, tier):
    t0 = time.time()
    cfg = CHECKS[pid]
    seed = int(os.environ.get("VERIF_SEED", "1") or "1")
    outdir = os.path.join(WORK, "out", pid)
    shutil.rmtree(outdir, ignore_errors=True)
    os.makedirs(outdir, exist_ok=True)
    res = Result()
    binaries = {}
    runs = cfg[tier] if tier in cfg else cfg["quick"]
    timeout = cfg.get(tier + "_timeout", 1500 if tier == "quick" else 4 * 3600)
    if os.environ.get("VERIF_TIMEOUT"):
        timeout = int(os.environ["VERIF_TIMEOUT"])  # (sensitivity runs on a loaded machine)
    # build what is needed (always from the current working tree of /repo)
    for r in runs:
        key = r.get("module", "harness") + ("-race" if r.get("race") else "")
        if key not in binaries:
            b = build(r.get("module", "harness"), race=bool(r.get("race")))
            binaries[key] = b
            if not r.get("race"):
                binaries[r.get("module", "harness")] = b
            if b is None:
                write_fail_evidence(pid, tier, seed, cfg, t0, "build failed")
                print("INCONCLUSIVE property=%s build failed" % pid)
                return 2
    if cfg.get("needs_legacygen") and not ensure_legacygen():
        write_fail_evidence(pid, tier, seed, cfg, t0, "legacygen build failed")
        print("INCONCLUSIVE property=%s legacygen build failed" % pid)
        return 2
    replay_tier(pid, cfg, binaries, res, outdir)
    jobs = []
    for ri, r in enumerate(runs):
        if r.get("kind", "rapid") == "fuzz":
            continue
        mod = r.get("module", "harness")
        binary = binaries[mod + ("-race" if r.get("race") else "")]
        shards = r.get("shards", 1)
        for k in range(shards):
            name = "%s.%d#%d" % (r["test"], ri, k)
            env = env_base()
            env.update({str(a): str(b) for a, b in r.get("env", {}).items()})
            env["VERIF_STATS"] = os.path.join(outdir, "stats-%s-%d-%d.json" % (r["test"], ri, k))
            env["VERIF_LOG"] = os.path.join(outdir, "log-%s-%d-%d.txt" % (r["test"], ri, k))
            env["VERIF_OUT"] = outdir
            env["VERIF_SHARD"] = "%s-%d-%d" % (r["test"], ri, k)
            env["VERIF_SEED_EFFECTIVE"] = str(seed_for(seed, pid, r["test"] + str(ri), k))
            env["VERIF_TIER"] = tier
            env["VERIF_PENDING"] = os.path.join(outdir, "pending-%s-%d-%d.json" % (r["test"], ri, k))
            if r.get("race"):
                env["VERIF_RACE_BUILD"] = "1"
            argv = [binary, "-test.run", "^%s$" % r["test"], "-test.v", "-test.timeout", "%ds" % timeout,
                    "-rapid.checks=%d" % r.get("checks", 100), "-rapid.seed=%d" % seed_for(seed, pid, r["test"] + str(ri), k),
                    "-rapid.nofailfile", "-rapid.shrinktime=%s" % r.get("shrinktime", "20s")]
            jobs.append((name, argv, env, module_dir(mod), r.get("checks", 100) if r.get("count_cases", True) else 0))
    run_procs(jobs, res, timeout + 60)
    minimize_replays(pid, cfg, binaries, res, outdir)
    # native fuzz campaigns (thorough only), sequential, wall-clock capped; expiry = nothing found
    for r in runs:
        if r.get("kind") != "fuzz":
            continue
        run_fuzz(pid, r, res, outdir)
    merged = merge_stats(pid, res.stats)
    wall = time.time() - t0
    for fid, what in sorted(res.known.items()):
        print("KNOWN-FINDING: property=%s %s: %s" % (pid, fid, what))
    for fid, n in sorted(merged["known_hits"].items()):
        if fid not in res.known:
            kf = {f["id"]: f for f in load_known()}.get(fid)
            if kf and kf["status"] == "open":
                print("KNOWN-FINDING: property=%s %s: %s (met %d times in the search tier)" % (pid, fid, kf["what"], n))
    write_evidence(pid, tier, seed, cfg, res, merged, wall, len(res.violations))
    for b in set(binaries.values()):
        if b and os.path.exists(b):
            os.remove(b)
    if res.violations:
        seen = set()
        for prop, path, text in res.violations:
            if path in seen:
                continue
            seen.add(path)
            print("VIOLATION property=%s replay=%s" % (pid, path))
            print("  detail: %s" % text)
        return 1
    if res.inconclusive:
        for m in res.inconclusive:
            print("INCONCLUSIVE property=%s %s" % (pid, m))
        return 2
    print("OK property=%s tier=%s cases=%d distinct_nontrivial=%d wall=%.1fs" % (pid, tier, merged["evaluations"], len(merged["nontrivial"]), wall))
    return 0


def write_fail_evidence(pid, tier, seed, cfg, t0, why):
    res = Result()
    res.notes.append(why)
    merged = {"evaluations": 0, "nontrivial": set(), "labels": {}, "counters": {}, "samples": [], "known_hits": {}}
    write_evidence(pid, tier, seed, cfg, res, merged, time.time() - t0, 0)


def run_fuzz(pid, r, res, outdir):
    mod = r.get("module", "harness")
    env = env_base()
    env["VERIF_OUT"] = outdir
    env["VERIF_SHARD"] = "fuzz-" + r["test"]
    cache = os.path.join(WORK, "build", "fuzzcache-%s" % r["test"])
    shutil.rmtree(cache, ignore_errors=True)
    cmd = ["go", "test", "-tags", TAG, "-vet=off", "-run", "^$", "-fuzz", "^%s$" % r["test"], "-fuzztime", r.get("fuzztime", "60s"),
           "-test.fuzzcachedir", cache] + prepare_modfile(mod) + ["."]
    t0 = time.time()
    try:
        p = subprocess.run(cmd, cwd=module_dir(mod), env=env, stdout=subprocess.PIPE, stderr=subprocess.STDOUT, text=True,
                           timeout=r.get("timeout", 1800))
    except subprocess.TimeoutExpired:
        res.notes.append("fuzz %s: wall-clock cap reached (nothing found)" % r["test"])
        return
    out = p.stdout
    execs = re.findall(r"execs: (\d+)", out)
    res.notes.append("fuzz %s: %s execs in %.0fs" % (r["test"], execs[-1] if execs else "?", time.time() - t0))
    m = re.search(r"Failing input written to (\S+)", out)
    if p.returncode != 0 and m:
        src = os.path.join(module_dir(mod), m.group(1))
        dst = os.path.join(outdir, "fuzz-%s-%s" % (r["test"], os.path.basename(m.group(1))))
        try:
            shutil.move(src, dst)
        except Exception:
            dst = src
        # the harness writes its own JSON replay file (replayable without the fuzzer) when the oracle fails; a bare
        # crash (panic in the library) only leaves the fuzzer's input file
        jv = VIOL_RE.findall(out)
        if jv and os.path.exists(jv[-1][1]):
            res.violations.append((pid, jv[-1][1], jv[-1][2].strip()[:600] + " (fuzzer input kept as %s)" % dst))
        else:
            res.violations.append((pid, dst, out[-800:]))
    elif p.returncode != 0:
        res.inconclusive.append("fuzz %s exit %d\n%s" % (r["test"], p.returncode, out[-2000:]))
    shutil.rmtree(cache, ignore_errors=True)


def ensure_legacygen():
    """The legacy oracle co-process (iavl v0.20.0 from the module cache); independent of /repo."""
    out = os.path.join(ROOT, "build", "legacygen")
    if os.path.exists(out):
        return True
    os.makedirs(os.path.dirname(out), exist_ok=True)
    p = subprocess.run(["go", "build", "-o", out, "."], cwd=module_dir("legacygen"), env=env_base(), stdout=subprocess.PIPE,
                       stderr=subprocess.STDOUT, text=True)
    if p.returncode != 0:
        print(p.stdout[-3000:])
        return False
    return True


def setup():
    ok = True
    for mod in ("harness", "harness_v2", "legacygen"):
        if not os.path.isdir(module_dir(mod)):
            continue
        if mod == "legacygen":
            lg = os.path.join(ROOT, "build", "legacygen")
            if os.path.exists(lg):
                os.remove(lg)
            if not ensure_legacygen():
                ok = False
            continue
        b = build(mod)
        if b is None:
            ok = False
        else:
            os.remove(b)
    print("setup", "ok" if ok else "FAILED")
    return 0 if ok else 2


def replay(pid, path):
    mod = CHECKS[pid].get("module", "harness")
    if CHECKS[pid].get("needs_legacygen"):
        ensure_legacygen()
    b = build(mod)
    if b is None:
        return 2
    env = env_base()
    env["VERIF_REPLAY"] = os.path.abspath(path)
    env["VERIF_NO_KNOWN"] = "1"
    p = subprocess.run([b, "-test.run", "^TestReplay$", "-test.v"], cwd=module_dir(mod), env=env, stdout=subprocess.PIPE,
                       stderr=subprocess.STDOUT, text=True, preexec_fn=lambda: limit_memory(CHECKS[pid].get("replay_mem_gb")))
    os.remove(b)
    m = VIOL_RE.search(p.stdout)
    fatal = re.search(r"^(fatal error: [^\n]*)", p.stdout, re.M)
    if not m and p.returncode != 0 and fatal and (not OOM_RE.search(p.stdout) or CHECKS[pid].get("replay_oom_is_violation")):
        print("VIOLATION property=%s replay=%s" % (pid, path))
        print("  detail: %s" % fatal.group(1)[:300])
        return 1
    if m:
        print("VIOLATION property=%s replay=%s" % (pid, path))
        print("  detail: %s" % m.group(3).strip()[:800])
        return 1
    if p.returncode != 0:
        print(p.stdout[-3000:])
        return 2
    print("replay passes: %s" % path)
    return 0


def main():
    if len(sys.argv) < 2:
        print(__doc__)
        return 2
    os.makedirs(os.path.join(WORK, "build"), exist_ok=True)
    cmd = sys.argv[1]
    if cmd == "setup":
        return setup()
    if cmd == "check":
        pid = sys.argv[2]
        tier = sys.argv[3] if len(sys.argv) > 3 else os.environ.get("VERIF_TIER", "quick")
        if tier not in ("quick", "thorough"):
            tier = "quick"
        return check(pid, tier)
    if cmd == "replay":
        return replay(sys.argv[2], sys.argv[3])
    print(__doc__)
    return 2


if __name__ == "__main__":
    sys.exit(main())
